----------------------------- MODULE GenAdapters -----------------------------
(***************************************************************************)
(* Behaviour generation for the adapters layer.  The vector-side actions   *)
(* are those of Vec.tla; this module adds the pipes (subscriber + adapter  *)
(* chain, chosen in Init from the constant sets below), limit changes and  *)
(* limit-observable drops.  No adapter semantics is needed to GENERATE:    *)
(* the judge is TraceAdapters.tla.                                         *)
(***************************************************************************)
EXTENDS Adapters, Json

CONSTANTS Depth,
          InitLens,      \* lengths of the initial contents
          StageKinds,    \* kinds a stage may have
          Modes,         \* modes of head/tail/skip stages
          Params,        \* limits / counts
          NStages,       \* set of chain lengths
          PipeFlavs,     \* subset of {"plain", "batched", "twin"}
          SelfObs,       \* subset of {0, 1, 2}: 1 allows "adapter itself as observer", 2 also after it was polled (late stacking)
          CoreSet        \* "lean" | "full": operation set of the complete-tree generator (GSpecCore)

VARIABLES pipes,  \* sequence of [flav, chain]
          lim     \* [pipe -> [stage -> [st: "none" | "alive" | "dropped", val: announced value, seen: polled since]]]

gvars == <<vars, pipes, lim>>

St(k, m, p, s) == [kind |-> k, mode |-> m, p |-> p, self |-> s]

StageSet ==
    {St(k, m, p, 0) : k \in StageKinds \cap LimitKinds, m \in Modes \ {"dyn"}, p \in Params}
    \cup {St(k, "dyn", 0, 0) : k \in (IF "dyn" \in Modes THEN StageKinds \cap LimitKinds ELSE {})}
    \cup {St(k, "static", 0, 0) : k \in StageKinds \ LimitKinds}

ChainSet ==
    UNION {[1..n -> StageSet] : n \in NStages}

(* mark purely dynamic stages that have a successor as self-observed, if allowed.  A self-observed  *)
(* stage of mode "dyninit" stands for a purely dynamic adapter that was POLLED with its limit p       *)
(* announced before the next stage was built from it (late stacking): the next stage's initial values *)
(* must then be the adapter's current view under p, not the empty view of a never-polled adapter.     *)
MarkSelf(ch, M) ==
    [j \in 1..Len(ch) |-> IF j < Len(ch) /\ ch[j].kind \in LimitKinds /\ ch[j].mode \in M
                               /\ (j = 1 \/ ~(ch[j - 1].kind \in LimitKinds /\ ch[j - 1].mode \in M))
                            THEN [ch[j] EXCEPT !.self = 1] ELSE ch[j]]

WithSelf(ch) ==
    {ch} \cup (IF 1 \in SelfObs THEN {MarkSelf(ch, {"dyn"})} ELSE {})
         \cup (IF 2 \in SelfObs THEN {MarkSelf(ch, {"dyn", "dyninit"}), MarkSelf(ch, {"dyninit"})} ELSE {})   \* 2: late stacking

PipesOf(f, ch) ==
    CASE f = "plain"   -> <<[flav |-> "plain", chain |-> ch]>>
      [] f = "batched" -> <<[flav |-> "batched", chain |-> ch]>>
      [] f = "twin"    -> <<[flav |-> "plain", chain |-> ch], [flav |-> "batched", chain |-> ch]>>

LimInit(ps) ==
    [s \in 1..Len(ps) |->
        [i \in 1..Len(ps[s].chain) |->
            [st |-> IF ps[s].chain[i].kind \in LimitKinds /\ ps[s].chain[i].mode # "static" THEN "alive" ELSE "none",
             val |-> ParamInit(ps[s].chain[i]), seen |-> TRUE]]]

GInit ==
    /\ \E n0 \in InitLens, c \in Caps, f \in PipeFlavs, ch0 \in ChainSet :
       \E ch \in WithSelf(ch0) :
          /\ pipes = PipesOf(f, ch)
          /\ cap = c
          /\ vals = [j \in 1..n0 |-> j] /\ fresh = n0 + 1
          /\ hist = <<[op |-> "New", t |-> "v", s |-> 0, i |-> c, v |-> 0, vs |-> [j \in 1..n0 |-> j], k |-> 0,
                       pipes |-> PipesOf(f, ch)]>>
    /\ lim = LimInit(pipes)
    /\ alive = TRUE /\ txn = NoTxn /\ chan = <<>>
    /\ subs = 1..Len(pipes)
    /\ sflav = [s \in SubIds |-> IF s <= Len(pipes) THEN pipes[s].flav ELSE "plain"]
    /\ snext = [s \in SubIds |-> 0] /\ srest = [s \in SubIds |-> <<>>]
    /\ replica = [s \in SubIds |-> vals] /\ gmsgs = [s \in SubIds |-> <<>>]
    /\ cands = [s \in SubIds |-> {<<0, FALSE>>}]
    /\ armed = [s \in SubIds |-> FALSE] /\ owed = {}
    /\ ret = RNil /\ out = <<>>

Limit(s, i, v) ==
    /\ s \in 1..Len(pipes) /\ i \in 1..Len(pipes[s].chain) /\ lim[s][i].st = "alive" /\ v \in Params
    \* a late-stacked Tail (self-observed, "dyninit") only has its limit raised: a decrease from beyond the length
    \* is known finding D2, which cannot be attributed to an untapped stage across budgeted polls
    /\ (pipes[s].chain[i].kind = "tail" /\ pipes[s].chain[i].mode = "dyninit" /\ pipes[s].chain[i].self = 1)
          => v >= lim[s][i].val
    /\ lim' = [lim EXCEPT ![s][i].val = v, ![s][i].seen = FALSE]
    /\ hist' = Append(hist, H("Limit", "v", s, i, v, <<>>, 0))
    /\ UNCHANGED <<alive, vals, cap, fresh, txn, chan, subs, sflav, snext, srest, replica, gmsgs, cands, armed, owed,
                   ret, out, pipes>>

LimitDrop(s, i) ==
    /\ s \in 1..Len(pipes) /\ i \in 1..Len(pipes[s].chain) /\ lim[s][i].st = "alive"
    /\ lim' = [lim EXCEPT ![s][i].st = "dropped"]
    /\ hist' = Append(hist, H("LimitDrop", "v", s, i, 0, <<>>, 0))
    /\ UNCHANGED <<alive, vals, cap, fresh, txn, chan, subs, sflav, snext, srest, replica, gmsgs, cands, armed, owed,
                   ret, out, pipes>>

MutInRange(w) ==
    \/ PushBack(w, fresh) \/ PushFront(w, fresh) \/ PopBack(w) \/ PopFront(w) \/ Clear(w)
    \/ \E i \in 0..Len(Cur(w)) : \/ Insert(w, i, fresh) \/ Truncate(w, i)
    \/ \E i \in 0..(Len(Cur(w)) - 1) : SetAt(w, i, fresh, "Set") \/ RemoveIdx(w, i, "Remove")
    \/ \E k \in 0..2 : AppendK(w, k)

VecSide ==
    \/ MutInRange("v") /\ UNCHANGED lim
    \/ \E s \in 1..Len(pipes), k \in {0, 1, 2} :
          Poll(s, k) /\ lim' = [lim EXCEPT ![s] = [i \in DOMAIN lim[s] |-> [lim[s][i] EXCEPT !.seen = TRUE]]]
    \/ DropVector /\ UNCHANGED lim

TxnSide == (MutInRange("t") \/ TxnBegin \/ TxnCommit \/ TxnDrop \/ TxnRollback) /\ UNCHANGED lim

LimSide == \E s \in 1..Len(pipes) : \E i \in 1..Len(pipes[s].chain) : (\E v \in Params : Limit(s, i, v)) \/ LimitDrop(s, i)

GNext == \/ (VecSide /\ UNCHANGED pipes)
         \/ LimSide
GNextTxn == \/ ((VecSide \/ TxnSide) /\ UNCHANGED pipes)
            \/ LimSide

(* small transaction bodies, every prefix committed or dropped, polled afterwards *)
TxnBodyOp ==
    \/ PushBack("t", fresh) \/ PushFront("t", fresh) \/ PopFront("t") \/ PopBack("t") \/ Clear("t")
    \/ \E i \in {0, 1} : Insert("t", i, fresh) \/ SetAt("t", i, fresh, "Set") \/ RemoveIdx("t", i, "Remove") \/ Truncate("t", i)
GNextTxnSmall ==
    \/ /\ txn.open /\ (TxnBodyOp \/ TxnCommit \/ TxnDrop) /\ UNCHANGED <<pipes, lim>>
    \/ /\ ~txn.open /\ UNCHANGED pipes
       /\ \/ TxnBegin /\ UNCHANGED lim
          \/ PushBack("v", fresh) /\ UNCHANGED lim
          \/ \E s \in 1..Len(pipes) :
                Poll(s, 0) /\ lim' = [lim EXCEPT ![s] = [i \in DOMAIN lim[s] |-> [lim[s][i] EXCEPT !.seen = TRUE]]]
GSpecTxnSmall == GInit /\ [][GNextTxnSmall]_gvars

(* wake-ups around multi-diff batches: tiny alphabet, deep complete trees *)
GNextTxnWake ==
    \/ /\ txn.open /\ (PushBack("t", fresh) \/ SetAt("t", 0, fresh, "Set") \/ TxnCommit) /\ UNCHANGED <<pipes, lim>>
    \/ /\ ~txn.open /\ UNCHANGED pipes
       /\ \/ (TxnBegin \/ PushBack("v", fresh) \/ DropVector) /\ UNCHANGED lim
          \/ \E s \in 1..Len(pipes) :
                Poll(s, 0) /\ lim' = [lim EXCEPT ![s] = [i \in DOMAIN lim[s] |-> [lim[s][i] EXCEPT !.seen = TRUE]]]
GSpecTxnWake == GInit /\ [][GNextTxnWake]_gvars

(* one transaction as a COMPLETE tree: begin, every sequence of Depth - 3 body calls over a small alphabet, commit, poll *)
(* (batched adapters process the whole batch in one go and may keep state between its diffs)                         *)
TxnTreeOp ==
    \/ PushBack("t", fresh) \/ PushFront("t", fresh) \/ PopFront("t")
    \/ \E i \in {0, 1} : SetAt("t", i, fresh, "Set")
    \/ RemoveIdx("t", 0, "Remove") \/ Insert("t", 1, fresh)
GNextTxnTree ==
    IF Len(hist) = 1 THEN TxnBegin /\ UNCHANGED <<pipes, lim>>
    ELSE IF Len(hist) <= Depth - 2 THEN TxnTreeOp /\ UNCHANGED <<pipes, lim>>
    ELSE IF txn.open THEN TxnCommit /\ UNCHANGED <<pipes, lim>>
    ELSE (\E s \in 1..Len(pipes) :
            Poll(s, 0) /\ lim' = [lim EXCEPT ![s] = [i \in DOMAIN lim[s] |-> [lim[s][i] EXCEPT !.seen = TRUE]]]) /\ UNCHANGED pipes
GSpecTxnTree == GInit /\ [][GNextTxnTree]_gvars

(* a compact core of operations for COMPLETE trees (every path): adapters keep internal state the    *)
(* generator knows nothing about (parked diffs, index tables), so one behaviour per transition is not *)
(* enough; every path of a small depth over this core is.                                           *)
LeanOp ==
    \/ PushFront("v", fresh) \/ PushBack("v", fresh) \/ PopFront("v")
    \/ Insert("v", 1, fresh) \/ SetAt("v", 0, fresh, "Set") \/ RemoveIdx("v", 1, "Remove") \/ Truncate("v", 1)
CoreOp ==
    \/ LeanOp
    \/ (CoreSet = "full" /\ (\/ PopBack("v") \/ Clear("v") \/ SetAt("v", 1, fresh, "Set")
                              \/ RemoveIdx("v", 0, "Remove") \/ AppendK("v", 2)))
GNextCore ==
    \/ (CoreOp /\ UNCHANGED <<pipes, lim>>)
    \/ (\E s \in 1..Len(pipes), k \in {0, 1} :
          Poll(s, k) /\ lim' = [lim EXCEPT ![s] = [i \in DOMAIN lim[s] |-> [lim[s][i] EXCEPT !.seen = TRUE]]] /\ UNCHANGED pipes)
    \/ LimSide
GSpecCore == GInit /\ [][GNextCore]_gvars

(* limit-centred trees: every path over limit changes, the limit observable's drop, polls and two source calls *)
GNextLimits ==
    \/ ((PushBack("v", fresh) \/ PopFront("v")) /\ UNCHANGED <<pipes, lim>>)
    \/ (\E s \in 1..Len(pipes) :
          Poll(s, 0) /\ lim' = [lim EXCEPT ![s] = [i \in DOMAIN lim[s] |-> [lim[s][i] EXCEPT !.seen = TRUE]]] /\ UNCHANGED pipes)
    \/ LimSide
GSpecLimits == GInit /\ [][GNextLimits]_gvars

GSpec == GInit /\ [][GNext]_gvars
GSpecTxn == GInit /\ [][GNextTxn]_gvars
(* long vectors (imbl's Vector changes representation at 64 items; a change to an adapter may be size-dependent): *)
(* the same walks from long initial contents, with appends of 40 / 70 items                                      *)
(* every mutator at a few representative indices (walks over long vectors: keeps the branching small) *)
IdxSome(n) == {0, 1, n \div 2, n - 2, n - 1, n, 63, 64, 65} \cap 0..n
MutSome(w) ==
    \/ PushBack(w, fresh) \/ PushFront(w, fresh) \/ PopBack(w) \/ PopFront(w) \/ Clear(w)
    \/ \E i \in IdxSome(Len(Cur(w))) : \/ Insert(w, i, fresh) \/ Truncate(w, i)
    \/ \E i \in IdxSome(Len(Cur(w)) - 1) : SetAt(w, i, fresh, "Set") \/ RemoveIdx(w, i, "Remove")
    \/ \E k \in {0, 1, 40, 70} : AppendK(w, k)
GNextBig ==
    \/ (MutSome("v") \/ MutSome("t") \/ TxnBegin \/ TxnCommit \/ TxnDrop \/ TxnRollback \/ DropVector) /\ UNCHANGED <<pipes, lim>>
    \/ (\E s \in 1..Len(pipes), k \in {0, 1, 2} :
          Poll(s, k) /\ lim' = [lim EXCEPT ![s] = [i \in DOMAIN lim[s] |-> [lim[s][i] EXCEPT !.seen = TRUE]]]) /\ UNCHANGED pipes
    \/ LimSide
GSpecBig == GInit /\ [][GNextBig]_gvars
(* the same as a COMPLETE tree: every pair of mutator calls at representative indices of a long vector, then one poll *)
(* (a size-dependent path may corrupt internal bookkeeping that only the next call touches)                          *)
IdxFew(n) == {0, n \div 2, n - 1, n} \cap 0..n
MutFew ==
    \/ PushBack("v", fresh) \/ PushFront("v", fresh) \/ PopBack("v") \/ PopFront("v")
    \/ \E i \in IdxFew(Len(vals)) : Insert("v", i, fresh) \/ Truncate("v", i)
    \/ \E i \in IdxFew(Len(vals) - 1) : SetAt("v", i, fresh, "Set") \/ RemoveIdx("v", i, "Remove")
    \/ \E k \in {20, 40} : AppendK("v", k)
GNextBigTree ==
    IF Len(hist) <= Depth - 1
    THEN MutFew /\ UNCHANGED <<pipes, lim>>
    ELSE (\E s \in 1..Len(pipes) :
            Poll(s, 0) /\ lim' = [lim EXCEPT ![s] = [i \in DOMAIN lim[s] |-> [lim[s][i] EXCEPT !.seen = TRUE]]]) /\ UNCHANGED pipes
GSpecBigTree == GInit /\ [][GNextBigTree]_gvars

View == <<core, pipes, lim>>
Bound == Len(hist) <= Depth
BoundTree == Len(hist) <= Depth + 1
PrintAtDepth == Len(hist) = Depth + 1 => PrintT(<<"B", ToJson(hist)>>)
Edge == PrintT(<<"B", ToJson(hist')>>)
=============================================================================
