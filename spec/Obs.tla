--------------------------------- MODULE Obs ---------------------------------
(***************************************************************************)
(* The observable value of crate `eyeball` at OPERATION granularity: one   *)
(* action per public call, taken at the call's linearization point.        *)
(*                                                                         *)
(* Handles are small integers.  `kind` says whether the value is owned by  *)
(* a unique `Observable` (owner id 1) or by clones of a `SharedObservable`.*)
(*                                                                         *)
(* Mirrors of the implementation:  ver (0 = closed), obs[s] (observed      *)
(* version), registered (subscribers whose latest waker sits in the waker  *)
(* list), the lock (rguards / wguard).                                     *)
(* Ghosts written from the property text only: unseen[s] (C01), armed,     *)
(* woken (C02).  The invariants at the end relate the two.                 *)
(*                                                                         *)
(* Single-threaded enabling rule: a call that would block forever on the   *)
(* lock (a write while a guard is alive, a read while the write guard is   *)
(* alive) is not enabled; the try_* calls explore those states instead.    *)
(***************************************************************************)
EXTENDS Integers, Sequences, FiniteSets, TLC

CONSTANTS NV,          \* values are 0 .. NV-1; the "default" value (take) is 0
          OwnerIds, SubIds, WeakIds, GuardIds,
          Kinds        \* subset of {"unique", "shared"}

Vals == 0 .. (NV - 1)
Hash(v) == v % 2        \* the harness element type hashes to this class

VARIABLES kind, val, ver, owners, weaks, subs, obs, unseen, armed, registered, woken, owed,
          guards, ret, hist

vars == <<kind, val, ver, owners, weaks, subs, obs, unseen, armed, registered, woken, owed,
          guards, ret, hist>>
(* everything but the history / last-return bookkeeping *)
core == <<kind, val, ver, owners, weaks, subs, obs, unseen, armed, registered, woken, owed, guards>>

(*************************** return values *********************************)
R(t, v)   == [t |-> t, v |-> v]
RNil      == R("Nil", 0)        \* (), or None from a conditional setter
RVal(v)   == R("Val", v)        \* a value / Some(previous)
RPending  == R("Pending", 0)
RSome(v)  == R("Some", v)       \* Ready(Some(v))
REnd      == R("End", 0)        \* Ready(None)
ROk       == R("Ok", 0)
RFail     == R("Fail", 0)

H(op, h, a, b, n) == [op |-> op, h |-> h, a |-> a, b |-> b, n |-> n]

(***************************** guards **************************************)
(* guards is a function GuardIds -> record; t = "none" | "r" | "w";        *)
(* of = "o" (borrowed from owner h) | "s" (from subscriber h);             *)
(* mut = TRUE when the guard borrows its subscriber mutably (next_ref_now) *)
NoGuard == [t |-> "none", of |-> "o", h |-> 0, mut |-> FALSE]
LiveGuards   == {g \in GuardIds : guards[g].t # "none"}
ReadGuards   == {g \in GuardIds : guards[g].t = "r"}
WriteGuards  == {g \in GuardIds : guards[g].t = "w"}
FreeGuards   == GuardIds \ LiveGuards
CanRead      == WriteGuards = {}
CanWrite     == LiveGuards = {}
OwnerBorrowed(o) == \E g \in LiveGuards : guards[g].of = "o" /\ guards[g].h = o
SubBorrowed(s)   == \E g \in LiveGuards : guards[g].of = "s" /\ guards[g].h = s
SubBorrowedMut(s) == \E g \in LiveGuards : guards[g].of = "s" /\ guards[g].h = s /\ guards[g].mut

Smallest(S) == IF S = {} THEN -1 ELSE CHOOSE x \in S : \A y \in S : x <= y

(**************************** readiness ************************************)
PollResult(s) == IF ver = 0 THEN REnd
                 ELSE IF obs[s] < ver THEN RSome(val) ELSE RPending

Init ==
    /\ kind \in Kinds
    /\ val \in Vals
    /\ ver = 1
    /\ owners = {Smallest(OwnerIds)}
    /\ weaks = {} /\ subs = {}
    /\ obs = [s \in SubIds |-> 0]
    /\ unseen = [s \in SubIds |-> FALSE]
    /\ armed = [s \in SubIds |-> FALSE]
    /\ registered = {} /\ woken = {} /\ owed = {}
    /\ guards = [g \in GuardIds |-> NoGuard]
    /\ ret = RNil
    /\ hist = <<H("New", 1, val, IF kind = "unique" THEN 0 ELSE 1, 0)>>

(***************************************************************************)
(* Notification: version + 1, every registered waker is drained and woken, *)
(* every live subscriber has something unseen.                             *)
(***************************************************************************)
Notify ==
    /\ ver' = ver + 1
    /\ woken' = woken \cup registered
    /\ registered' = {}
    /\ owed' = owed \cup {s \in subs : armed[s]}
    /\ unseen' = [s \in SubIds |-> IF s \in subs THEN TRUE ELSE unseen[s]]

NoNotify == UNCHANGED <<ver, woken, registered, unseen, owed>>

Close ==
    /\ ver' = 0
    /\ woken' = woken \cup registered
    /\ owed' = owed \cup {s \in subs : armed[s]}
    /\ registered' = {}

(************************* writer operations *******************************)
(* A writer is an owner (w = "o", needs the write lock free) or the live    *)
(* write guard (w = "g").                                                   *)
WriterOk(w, h) ==
    \/ w = "o" /\ h \in owners /\ CanWrite
    \/ w = "g" /\ h \in WriteGuards

Pfx(w, op) == IF w = "g" THEN "G" \o op ELSE op

Set(w, h, a) ==
    /\ WriterOk(w, h) /\ a \in Vals
    /\ val' = a /\ Notify /\ ret' = RVal(val)
    /\ hist' = Append(hist, H(Pfx(w, "Set"), h, a, 0, 0))
    /\ UNCHANGED <<kind, owners, weaks, subs, obs, armed, guards>>

Take(w, h) ==
    /\ WriterOk(w, h)
    /\ val' = 0 /\ Notify /\ ret' = RVal(val)
    /\ hist' = Append(hist, H(Pfx(w, "Take"), h, 0, 0, 0))
    /\ UNCHANGED <<kind, owners, weaks, subs, obs, armed, guards>>

SetIfNotEq(w, h, a) ==
    /\ WriterOk(w, h) /\ a \in Vals
    /\ IF a # val
       THEN val' = a /\ Notify /\ ret' = RVal(val)
       ELSE UNCHANGED val /\ NoNotify /\ ret' = RNil
    /\ hist' = Append(hist, H(Pfx(w, "SetIfNotEq"), h, a, 0, 0))
    /\ UNCHANGED <<kind, owners, weaks, subs, obs, armed, guards>>

SetIfHashNotEq(w, h, a) ==
    /\ WriterOk(w, h) /\ a \in Vals
    /\ IF Hash(a) # Hash(val)
       THEN val' = a /\ Notify /\ ret' = RVal(val)
       ELSE UNCHANGED val /\ NoNotify /\ ret' = RNil
    /\ hist' = Append(hist, H(Pfx(w, "SetIfHashNotEq"), h, a, 0, 0))
    /\ UNCHANGED <<kind, owners, weaks, subs, obs, armed, guards>>

(* the closure adds a (mod NV) to the value it is given *)
Update(w, h, a) ==
    /\ WriterOk(w, h) /\ a \in Vals
    /\ val' = (val + a) % NV /\ Notify /\ ret' = RNil
    /\ hist' = Append(hist, H(Pfx(w, "Update"), h, a, 0, 0))
    /\ UNCHANGED <<kind, owners, weaks, subs, obs, armed, guards>>

(* the closure adds a (mod NV) and returns b *)
UpdateIf(w, h, a, b) ==
    /\ WriterOk(w, h) /\ a \in Vals /\ b \in BOOLEAN
    /\ val' = (val + a) % NV
    /\ IF b THEN Notify ELSE NoNotify
    /\ ret' = RNil
    /\ hist' = Append(hist, H(Pfx(w, "UpdateIf"), h, a, IF b THEN 1 ELSE 0, 0))
    /\ UNCHANGED <<kind, owners, weaks, subs, obs, armed, guards>>

(************************* owner, non-writing ******************************)
(* Observable::get / Deref never lock; SharedObservable::get read-locks.   *)
OwnerGet(o) ==
    /\ o \in owners /\ (kind = "unique" \/ CanRead)
    /\ ret' = RVal(val)
    /\ hist' = Append(hist, H("Get", o, 0, 0, 0))
    /\ UNCHANGED core

Subscribe(o, n) ==
    /\ o \in owners /\ n \in SubIds \ subs /\ (kind = "unique" \/ CanRead)
    /\ subs' = subs \cup {n}
    /\ obs' = [obs EXCEPT ![n] = ver]
    /\ unseen' = [unseen EXCEPT ![n] = FALSE]
    /\ armed' = [armed EXCEPT ![n] = FALSE]
    /\ registered' = registered \ {n} /\ woken' = woken \ {n} /\ owed' = owed \ {n}
    /\ ret' = RNil
    /\ hist' = Append(hist, H("Subscribe", o, 0, 0, n))
    /\ UNCHANGED <<kind, val, ver, owners, weaks, guards>>

SubscribeReset(o, n) ==
    /\ o \in owners /\ n \in SubIds \ subs
    /\ subs' = subs \cup {n}
    /\ obs' = [obs EXCEPT ![n] = 0]
    /\ unseen' = [unseen EXCEPT ![n] = TRUE]
    /\ armed' = [armed EXCEPT ![n] = FALSE]
    /\ registered' = registered \ {n} /\ woken' = woken \ {n} /\ owed' = owed \ {n}
    /\ ret' = RNil
    /\ hist' = Append(hist, H("SubscribeReset", o, 0, 0, n))
    /\ UNCHANGED <<kind, val, ver, owners, weaks, guards>>

CloneOwner(o, n) ==
    /\ kind = "shared" /\ o \in owners /\ n \in OwnerIds \ owners
    /\ owners' = owners \cup {n}
    /\ ret' = RNil
    /\ hist' = Append(hist, H("CloneOwner", o, 0, 0, n))
    /\ UNCHANGED <<kind, val, ver, weaks, subs, obs, unseen, armed, registered, woken, owed, guards>>

(* Dropping the unique owner, or the last clone, closes. *)
DropOwner(o) ==
    /\ o \in owners /\ ~OwnerBorrowed(o)
    /\ owners' = owners \ {o}
    /\ IF owners = {o} THEN Close ELSE UNCHANGED <<ver, woken, registered, owed>>
    /\ ret' = RNil
    /\ hist' = Append(hist, H("DropOwner", o, 0, 0, 0))
    /\ UNCHANGED <<kind, val, weaks, subs, obs, unseen, armed, guards>>

IntoShared(o) ==
    /\ kind = "unique" /\ o \in owners
    /\ kind' = "shared"
    /\ ret' = RNil
    /\ hist' = Append(hist, H("IntoShared", o, 0, 0, 0))
    /\ UNCHANGED <<val, ver, owners, weaks, subs, obs, unseen, armed, registered, woken, owed, guards>>

Downgrade(o, n) ==
    /\ kind = "shared" /\ o \in owners /\ n \in WeakIds \ weaks
    /\ weaks' = weaks \cup {n}
    /\ ret' = RNil
    /\ hist' = Append(hist, H("Downgrade", o, 0, 0, n))
    /\ UNCHANGED <<kind, val, ver, owners, subs, obs, unseen, armed, registered, woken, owed, guards>>

CloneWeak(w, n) ==
    /\ w \in weaks /\ n \in WeakIds \ weaks
    /\ weaks' = weaks \cup {n}
    /\ ret' = RNil
    /\ hist' = Append(hist, H("CloneWeak", w, 0, 0, n))
    /\ UNCHANGED <<kind, val, ver, owners, subs, obs, unseen, armed, registered, woken, owed, guards>>

DropWeak(w) ==
    /\ w \in weaks
    /\ weaks' = weaks \ {w}
    /\ ret' = RNil
    /\ hist' = Append(hist, H("DropWeak", w, 0, 0, 0))
    /\ UNCHANGED <<kind, val, ver, owners, subs, obs, unseen, armed, registered, woken, owed, guards>>

(* upgrade succeeds exactly while an owner exists; n = 0 when it fails or  *)
(* when no owner id is free (then the upgraded handle is dropped at once   *)
(* by the driver, which is a DropOwner of a non-last clone: a no-op).      *)
Upgrade(w, n) ==
    /\ w \in weaks
    /\ IF owners # {}
       THEN /\ n \in OwnerIds \ owners
            /\ owners' = owners \cup {n} /\ ret' = ROk
       ELSE /\ n = 0 /\ UNCHANGED owners /\ ret' = RFail
    /\ hist' = Append(hist, H("Upgrade", w, 0, 0, n))
    /\ UNCHANGED <<kind, val, ver, weaks, subs, obs, unseen, armed, registered, woken, owed, guards>>

(******************************* guards ************************************)
OwnerRead(o, g) ==       \* SharedObservable::read
    /\ kind = "shared" /\ o \in owners /\ CanRead /\ g \in FreeGuards
    /\ guards' = [guards EXCEPT ![g] = [t |-> "r", of |-> "o", h |-> o, mut |-> FALSE]]
    /\ ret' = RVal(val)
    /\ hist' = Append(hist, H("Read", o, 0, 0, g))
    /\ UNCHANGED <<kind, val, ver, owners, weaks, subs, obs, unseen, armed, registered, woken, owed>>

OwnerTryRead(o, g) ==    \* fails exactly while the write guard is alive
    /\ kind = "shared" /\ o \in owners /\ FreeGuards # {} /\ g \in FreeGuards
    /\ IF CanRead
       THEN /\ guards' = [guards EXCEPT ![g] = [t |-> "r", of |-> "o", h |-> o, mut |-> FALSE]]
            /\ ret' = RVal(val)
       ELSE UNCHANGED guards /\ ret' = RFail
    /\ hist' = Append(hist, H("TryRead", o, 0, 0, g))
    /\ UNCHANGED <<kind, val, ver, owners, weaks, subs, obs, unseen, armed, registered, woken, owed>>

OwnerWrite(o, g) ==
    /\ kind = "shared" /\ o \in owners /\ CanWrite /\ g \in FreeGuards
    /\ guards' = [guards EXCEPT ![g] = [t |-> "w", of |-> "o", h |-> o, mut |-> FALSE]]
    /\ ret' = RVal(val)
    /\ hist' = Append(hist, H("Write", o, 0, 0, g))
    /\ UNCHANGED <<kind, val, ver, owners, weaks, subs, obs, unseen, armed, registered, woken, owed>>

OwnerTryWrite(o, g) ==   \* fails exactly while any guard is alive
    /\ kind = "shared" /\ o \in owners /\ FreeGuards # {} /\ g \in FreeGuards
    /\ IF CanWrite
       THEN /\ guards' = [guards EXCEPT ![g] = [t |-> "w", of |-> "o", h |-> o, mut |-> FALSE]]
            /\ ret' = RVal(val)
       ELSE UNCHANGED guards /\ ret' = RFail
    /\ hist' = Append(hist, H("TryWrite", o, 0, 0, g))
    /\ UNCHANGED <<kind, val, ver, owners, weaks, subs, obs, unseen, armed, registered, woken, owed>>

(* try_read / try_write whose guard is dropped at once (one call of the    *)
(* threaded driver): only the outcome is observable.                       *)
OwnerTryReadNow(o) ==
    /\ kind = "shared" /\ o \in owners
    /\ ret' = IF CanRead THEN RVal(val) ELSE RFail
    /\ hist' = Append(hist, H("TryReadNow", o, 0, 0, 0))
    /\ UNCHANGED core

OwnerTryWriteNow(o) ==
    /\ kind = "shared" /\ o \in owners
    /\ ret' = IF CanWrite THEN RVal(val) ELSE RFail
    /\ hist' = Append(hist, H("TryWriteNow", o, 0, 0, 0))
    /\ UNCHANGED core

GuardGet(g) ==           \* Deref of a read or write guard
    /\ g \in LiveGuards
    /\ ret' = RVal(val)
    /\ hist' = Append(hist, H("GuardGet", g, 0, 0, 0))
    /\ UNCHANGED core

DropGuard(g) ==
    /\ g \in LiveGuards
    /\ guards' = [guards EXCEPT ![g] = NoGuard]
    /\ ret' = RNil
    /\ hist' = Append(hist, H("DropGuard", g, 0, 0, 0))
    /\ UNCHANGED <<kind, val, ver, owners, weaks, subs, obs, unseen, armed, registered, woken, owed>>

(***************************** subscribers *********************************)
(* via = "Poll" (Stream::poll_next) | "PollNext" (the next() future polled *)
(* once) | "PollNextRef" (next_ref() polled once); all three share one     *)
(* readiness rule.                                                          *)
PollVias == {"Poll", "PollNext", "PollNextRef"}
(* what a poll under the read lock does to the subscriber's bookkeeping (shared with ObsAsync) *)
PollEffect(s) ==
    IF ver = 0
    THEN UNCHANGED <<obs, unseen, registered, woken>> /\ owed' = owed \ {s} /\ armed' = [armed EXCEPT ![s] = FALSE]
    ELSE IF obs[s] < ver
    THEN /\ obs' = [obs EXCEPT ![s] = ver]
         /\ unseen' = [unseen EXCEPT ![s] = FALSE]
         /\ armed' = [armed EXCEPT ![s] = FALSE]
         /\ UNCHANGED <<registered, woken>> /\ owed' = owed \ {s}
    ELSE /\ registered' = registered \cup {s}     \* a fresh waker is registered
         /\ woken' = woken \ {s} /\ owed' = owed \ {s}
         /\ armed' = [armed EXCEPT ![s] = TRUE]
         /\ UNCHANGED <<obs, unseen>>

Poll(s, via) ==
    /\ s \in subs /\ ~SubBorrowed(s) /\ CanRead /\ via \in PollVias
    /\ ret' = PollResult(s)
    /\ PollEffect(s)
    /\ hist' = Append(hist, H(via, s, 0, 0, 0))
    /\ UNCHANGED <<kind, val, ver, owners, weaks, subs, guards>>

NextNow(s) ==
    /\ s \in subs /\ ~SubBorrowed(s) /\ CanRead
    /\ obs' = [obs EXCEPT ![s] = ver]
    /\ unseen' = [unseen EXCEPT ![s] = FALSE]
    /\ ret' = RVal(val)
    /\ hist' = Append(hist, H("NextNow", s, 0, 0, 0))
    /\ UNCHANGED <<kind, val, ver, owners, weaks, subs, armed, registered, woken, owed, guards>>

NextRefNow(s, g) ==
    /\ s \in subs /\ ~SubBorrowed(s) /\ CanRead /\ g \in FreeGuards
    /\ obs' = [obs EXCEPT ![s] = ver]
    /\ unseen' = [unseen EXCEPT ![s] = FALSE]
    /\ guards' = [guards EXCEPT ![g] = [t |-> "r", of |-> "s", h |-> s, mut |-> TRUE]]
    /\ ret' = RVal(val)
    /\ hist' = Append(hist, H("NextRefNow", s, 0, 0, g))
    /\ UNCHANGED <<kind, val, ver, owners, weaks, subs, armed, registered, woken, owed>>

SubGet(s) ==
    /\ s \in subs /\ ~SubBorrowedMut(s) /\ CanRead
    /\ ret' = RVal(val)
    /\ hist' = Append(hist, H("SubGet", s, 0, 0, 0))
    /\ UNCHANGED core

SubRead(s, g) ==
    /\ s \in subs /\ ~SubBorrowedMut(s) /\ CanRead /\ g \in FreeGuards
    /\ guards' = [guards EXCEPT ![g] = [t |-> "r", of |-> "s", h |-> s, mut |-> FALSE]]
    /\ ret' = RVal(val)
    /\ hist' = Append(hist, H("SubRead", s, 0, 0, g))
    /\ UNCHANGED <<kind, val, ver, owners, weaks, subs, obs, unseen, armed, registered, woken, owed>>

Reset(s) ==
    /\ s \in subs /\ ~SubBorrowed(s)
    /\ obs' = [obs EXCEPT ![s] = 0]
    /\ unseen' = [unseen EXCEPT ![s] = TRUE]
    /\ ret' = RNil
    /\ hist' = Append(hist, H("Reset", s, 0, 0, 0))
    /\ UNCHANGED <<kind, val, ver, owners, weaks, subs, armed, registered, woken, owed, guards>>

CloneSub(s, n) ==
    /\ s \in subs /\ ~SubBorrowedMut(s) /\ n \in SubIds \ subs
    /\ subs' = subs \cup {n}
    /\ obs' = [obs EXCEPT ![n] = obs[s]]
    /\ unseen' = [unseen EXCEPT ![n] = unseen[s]]
    /\ armed' = [armed EXCEPT ![n] = FALSE]
    /\ registered' = registered \ {n} /\ woken' = woken \ {n} /\ owed' = owed \ {n}
    /\ ret' = RNil
    /\ hist' = Append(hist, H("CloneSub", s, 0, 0, n))
    /\ UNCHANGED <<kind, val, ver, owners, weaks, guards>>

CloneReset(s, n) ==
    /\ s \in subs /\ ~SubBorrowedMut(s) /\ n \in SubIds \ subs
    /\ subs' = subs \cup {n}
    /\ obs' = [obs EXCEPT ![n] = 0]
    /\ unseen' = [unseen EXCEPT ![n] = TRUE]
    /\ armed' = [armed EXCEPT ![n] = FALSE]
    /\ registered' = registered \ {n} /\ woken' = woken \ {n} /\ owed' = owed \ {n}
    /\ ret' = RNil
    /\ hist' = Append(hist, H("CloneReset", s, 0, 0, n))
    /\ UNCHANGED <<kind, val, ver, owners, weaks, guards>>

DropSub(s) ==
    /\ s \in subs /\ ~SubBorrowed(s)
    /\ subs' = subs \ {s}
    /\ armed' = [armed EXCEPT ![s] = FALSE]
    /\ ret' = RNil
    /\ hist' = Append(hist, H("DropSub", s, 0, 0, 0))
    /\ UNCHANGED <<kind, val, ver, owners, weaks, obs, unseen, registered, woken, owed, guards>>

(******************************** Next *************************************)
Writers == {<<"o", o>> : o \in OwnerIds} \cup {<<"g", g>> : g \in GuardIds}

(* In Next the id of a newly created handle is the smallest free one (a     *)
(* canonical choice that keeps the state space small); the actions         *)
(* themselves accept any free id, which the concurrent trace               *)
(* specification (TraceLin) relies on.                                     *)
NewSub   == {Smallest(SubIds \ subs)}
NewOwner == {Smallest(OwnerIds \ owners)}
NewWeak  == {Smallest(WeakIds \ weaks)}
NewGuard == {Smallest(FreeGuards)}

Next ==
    \/ \E w \in Writers, a \in Vals :
          \/ Set(w[1], w[2], a) \/ SetIfNotEq(w[1], w[2], a) \/ SetIfHashNotEq(w[1], w[2], a)
          \/ Update(w[1], w[2], a)
          \/ \E b \in BOOLEAN : UpdateIf(w[1], w[2], a, b)
    \/ \E w \in Writers : Take(w[1], w[2])
    \/ \E o \in OwnerIds :
          \/ OwnerGet(o) \/ DropOwner(o) \/ IntoShared(o)
          \/ \E n \in NewSub : Subscribe(o, n) \/ SubscribeReset(o, n)
          \/ \E n \in NewOwner : CloneOwner(o, n)
          \/ \E n \in NewWeak : Downgrade(o, n)
          \/ \E g \in NewGuard : OwnerRead(o, g) \/ OwnerTryRead(o, g) \/ OwnerWrite(o, g) \/ OwnerTryWrite(o, g)
    \/ \E w \in WeakIds :
          \/ DropWeak(w)
          \/ \E n \in NewWeak : CloneWeak(w, n)
          \/ \E n \in NewOwner \cup {0} : Upgrade(w, n)
    \/ \E g \in GuardIds : GuardGet(g) \/ DropGuard(g)
    \/ \E s \in SubIds :
          \/ \E via \in PollVias : Poll(s, via)
          \/ NextNow(s) \/ SubGet(s) \/ Reset(s) \/ DropSub(s)
          \/ \E g \in NewGuard : NextRefNow(s, g) \/ SubRead(s, g)
          \/ \E n \in NewSub : CloneSub(s, n) \/ CloneReset(s, n)

Spec == Init /\ [][Next]_vars

(* Focus for C03 / C19: only calls that create, move or drop handles, plus *)
(* the few needed to observe the end of the stream.                        *)
NextHandles ==
    \/ \E o \in OwnerIds :
          \/ DropOwner(o) \/ IntoShared(o) \/ OwnerGet(o)
          \/ \E a \in {1} : Set("o", o, a)
          \/ \E n \in NewSub : Subscribe(o, n) \/ SubscribeReset(o, n)
          \/ \E n \in NewOwner : CloneOwner(o, n)
          \/ \E n \in NewWeak : Downgrade(o, n)
    \/ \E w \in WeakIds :
          \/ DropWeak(w)
          \/ \E n \in NewWeak : CloneWeak(w, n)
          \/ \E n \in NewOwner \cup {0} : Upgrade(w, n)
    \/ \E s \in SubIds :
          \/ Poll(s, "Poll") \/ SubGet(s) \/ DropSub(s)
          \/ \E n \in NewSub : CloneSub(s, n)

SpecHandles == Init /\ [][NextHandles]_vars

(***************************************************************************)
(* Properties                                                              *)
(***************************************************************************)
TypeOK ==
    /\ kind \in {"unique", "shared"} /\ val \in Vals /\ ver \in Nat
    /\ owners \subseteq OwnerIds /\ weaks \subseteq WeakIds /\ subs \subseteq SubIds
    /\ registered \subseteq SubIds /\ woken \subseteq SubIds /\ owed \subseteq SubIds

(* C01: the version bookkeeping of the code agrees with "an update this   *)
(* subscriber has not observed, or it was reset".                          *)
ReadyIffUnseen == \A s \in subs : ver # 0 => ((obs[s] < ver) <=> unseen[s])
ObservedLeVer  == \A s \in subs : ver # 0 => obs[s] <= ver

(* C02: a subscriber whose last poll was Pending and that has since been   *)
(* owed a wake-up (ghost `owed`: a notifying update or the close happened  *)
(* after that poll) has had that poll's waker woken.  A reset() by the     *)
(* subscriber's own holder makes the next poll ready without any update;   *)
(* the property does not ask for a wake-up then.                           *)
MustBeWoken == {s \in subs : armed[s] /\ s \in owed}
NoLostWake == MustBeWoken \subseteq woken
(* stronger, implementation-shaped: an armed subscriber is either          *)
(* registered or woken                                                      *)
ArmedRegisteredOrWoken == \A s \in subs : armed[s] => (s \in registered \/ s \in woken)

(* C03 *)
ClosedIffNoOwner == (ver = 0) <=> (owners = {})
UniqueHasOneOwner == kind = "unique" => Cardinality(owners) <= 1

(* C04 (sequential part): a read guard excludes the write guard *)
LockExclusion == WriteGuards # {} => Cardinality(LiveGuards) = 1

(* C19: what the count functions must return *)
CountObservables == Cardinality(owners)
CountSubscribers == Cardinality(subs)
CountWeak        == Cardinality(weaks)
=============================================================================
