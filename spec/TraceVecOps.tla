----------------------------- MODULE TraceVecOps -----------------------------
(* C18: judge what the real VectorDiff::map / apply did on each case. *)
EXTENDS VecOps, TLC, Json, IOUtils, TLCExt
Rec == ndJsonDeserialize(IOEnv.TRACE)
VARIABLE l
F0(v) == v
F1(v) == v + 1
F2(v) == 7
F3(v) == v % 2
MapBy(f, s) == CASE f = 0 -> MapSeq(s, F0) [] f = 1 -> MapSeq(s, F1) [] f = 2 -> MapSeq(s, F2) [] OTHER -> MapSeq(s, F3)
MapDiffBy(f, d) == CASE f = 0 -> MapDiff(d, F0) [] f = 1 -> MapDiff(d, F1) [] f = 2 -> MapDiff(d, F2) [] OTHER -> MapDiff(d, F3)
Bump(i) == TLCSet(i, TLCGet(i) + 1)

Failures(e) ==
    (IF (e.panic = 1) # ApplyPanics(e.d, e.s) THEN {"panics-exactly"} ELSE {})
    \cup (IF e.panic = 0 /\ ~ApplyPanics(e.d, e.s) /\ e.res # Apply(e.d, e.s) THEN {"apply"} ELSE {})
    \cup (IF e.md # MapDiffBy(e.f, e.d) THEN {"map"} ELSE {})
    \cup (IF e.f = 0 /\ e.md # e.d THEN {"map-identity"} ELSE {})
    \cup (IF ~ApplyPanics(e.d, e.s) /\ (e.mpanic = 1 \/ e.mres # MapBy(e.f, Apply(e.d, e.s))) THEN {"commute"} ELSE {})

TraceInit == l = 1 /\ TLCSet(1, 0) /\ TLCSet(2, 0) /\ TLCSet(3, 0)
TraceNext ==
    /\ l <= Len(Rec) /\ l' = l + 1
    /\ LET e == Rec[l] IN
         /\ \A c \in Failures(e) : PrintT(<<"V", e.run, l, "C18", c, ToJson([s |-> e.s, d |-> e.d, f |-> e.f, panic |-> e.panic,
                                              res |-> e.res, md |-> e.md, mres |-> e.mres, mpanic |-> e.mpanic])>>)
         /\ Bump(1)
         /\ (ApplyPanics(e.d, e.s) => Bump(2))
         /\ (Applicable(e.d, e.s) /\ Apply(e.d, e.s) # e.s => Bump(3))
TraceSpec == TraceInit /\ [][TraceNext]_l
TraceAccepted ==
    LET d == TLCGet("stats").diameter IN
    IF d - 1 = Len(Rec) THEN PrintT(<<"STATS", ToJson(<<Len(Rec), TLCGet(1), TLCGet(2), TLCGet(3)>>)>>)
    ELSE PrintT(<<"STUCK", d>>) /\ FALSE
=============================================================================
