#!/usr/bin/env python3
"""Demonstrate that the specification is BOUND to the implementation (the trace specs constrain
more than the length of a trace): for each layer
  1. generate a few behaviours with TLC, run them on the real code, validate: accepted, no V line;
  2. corrupt ONE recorded field of one event: the validator must report a failed clause at that run;
  3. delete ONE event: the validator must report a failed clause (or refuse the trace).
Exit 0 iff every expectation holds.  Usage: tools/selftest.py   (cwd anywhere; uses /verif/work)
"""
import json, os, random, sys

sys.path.insert(0, os.path.dirname(os.path.dirname(os.path.abspath(__file__))))
from checklib import *  # noqa
import layers

random.seed(7)
work = mkwork("selftest")
ok = True


def expect(cond, msg):
    global ok
    print(("PASS " if cond else "FAIL ") + msg, flush=True)
    ok = ok and cond


def gen(module, spec, consts, extra):
    beh = os.path.join(work, "b-%s.ndjson" % module)
    if os.path.exists(beh):
        os.remove(beh)
    c = os.path.join(work, "g-%s.cfg" % module)
    write_cfg(c, spec=spec, constants=consts, **extra)
    gen_behaviours(module, c, work, beh, "edge", tag="st")
    return beh


def mutate_and_validate(name, trace, validate_fn, pick, corrupt):
    lines = open(trace).read().splitlines()
    base = validate_fn(trace)
    expect(len(base["violations"]) == 0, "%s: the unmodified trace is accepted (%d events)" % (name, len(lines)))
    # corrupt one field
    idxs = [i for i, l in enumerate(lines) if pick(json.loads(l))]
    i = idxs[len(idxs) // 2]
    e = json.loads(lines[i])
    corrupt(e)
    t2 = trace + ".corrupt"
    with open(t2, "w") as f:
        f.write("\n".join(lines[:i] + [json.dumps(e)] + lines[i + 1:]) + "\n")
    r = validate_fn(t2)
    runs = {v["run"] for v in r["violations"]}
    expect(e["run"] in runs, "%s: corrupting one field of event %d (run %d) is reported for exactly that run (%s)"
           % (name, i + 1, e["run"], sorted(runs)[:3]))
    expect(len(runs) == 1, "%s: ... and no other run is accused" % name)
    # delete one STATE-CHANGING event that a later event of the same run depends on
    objs = [json.loads(l) for l in lines]
    j = None
    for cand in idxs_del(objs):
        j = cand
        break
    if j is None:
        expect(False, "%s: no deletable event found" % name)
        return
    run_j = objs[j]["run"]
    t3 = trace + ".deleted"
    with open(t3, "w") as f:
        f.write("\n".join(lines[:j] + lines[j + 1:]) + "\n")
    try:
        r = validate_fn(t3)
        runs = {v["run"] for v in r["violations"]}
        expect(run_j in runs, "%s: deleting event %d (run %d, %s) is reported for that run" % (name, j + 1, run_j, objs[j].get("op")))
    except ToolError as ex:
        expect(True, "%s: deleting event %d makes the trace unfollowable (refused: %s)" % (name, j + 1, str(ex)[:60]))


def idxs_del(objs):
    """indices of a mutating event that is followed, in the same run, by an event that observes the state"""
    n = len(objs)
    order = list(range(n // 3, n))
    for i in order:
        e = objs[i]
        if e.get("op") not in ("Set", "PushBack", "PushFront"):
            continue
        for k in range(i + 1, min(i + 8, n)):
            f = objs[k]
            if f.get("run") != e.get("run"):
                break
            if f.get("op") in ("Get", "SubGet", "NextNow", "Poll") and (f.get("op") != "Poll" or "items" in f or "taps" in f or f.get("ret", {}).get("t") == "Some"):
                yield i
                break


# ---------------------------------------------------------------- obs layer
beh = gen("GenObs", "Spec", dict(layers.OBS_MC, Depth=4), dict(view="View", constraints=["Bound"], action_constraints=["Edge"]))
trace = os.path.join(work, "t-obs.ndjson")
run_harness(["obs-replay", beh, trace, "--nv", "3"])


def v_obs(t):
    c = os.path.join(work, "TraceObs.cfg")
    write_cfg(c, spec="TraceSpec", constants=dict(layers.OBS_TRACE, Flavor="sync"), postcondition="TraceAccepted")
    return validate("TraceObs", c, t, work, nchunks=4)


def corrupt_ret(e):
    e["ret"]["v"] = (e["ret"]["v"] + 1) % 3


mutate_and_validate("obs", trace, v_obs, lambda e: e.get("e") == "Call" and e["ret"]["t"] == "Val" and e["op"] in ("Set", "Get", "SubGet", "NextNow"),
                    corrupt_ret)

# ---------------------------------------------------------------- vec layer
beh = gen("GenVec", "SpecStreams", dict(MaxDecs=1, SubIds={1, 2}, Caps={2}, MaxLen=2, LagThenClosedLosesState=False, Depth=5,
                                          InitLens={0}, PreSubs={0}),
          dict(view="View", constraints=["Bound"], action_constraints=["Edge"]))
trace = os.path.join(work, "t-vec.ndjson")
run_harness(["vec-replay", beh, trace])


def corrupt_item(e):
    d = e["items"][0][0]
    if d["k"] in ("PushBack", "PushFront", "Insert", "Set"):
        d["v"] += 50
    elif d["k"] in ("Append", "Reset"):
        d["vs"] = d["vs"] + [77]
    else:
        d["k"] = "PushBack"
        d["v"] = 77


mutate_and_validate("vec", trace, lambda t: layers.vec_validate(t, work),
                    lambda e: e.get("op") == "Poll" and e.get("items") and e["ret"]["t"] == "Pending", corrupt_item)

# ---------------------------------------------------------------- adapters layer
beh = gen("GenAdapters", "GSpec", layers.ad_base(StageKinds={"head", "filter", "skip"}, Depth=4, InitLens={2}, Modes={"static"}, Params={1}),
          dict(view="View", constraints=["Bound"], action_constraints=["Edge"]))
trace = os.path.join(work, "t-ad.ndjson")
run_harness(["adapters-replay", beh, trace])


def corrupt_tap(e):
    d = e["taps"][-1][0][0]
    if d["k"] in ("PushBack", "PushFront", "Insert", "Set"):
        d["v"] += 50
    elif d["k"] in ("Append", "Reset"):
        d["vs"] = d["vs"] + [77]
    else:
        d["k"] = "PushBack"
        d["v"] = 77


mutate_and_validate("adapters", trace, lambda t: layers.ad_validate(t, work),
                    lambda e: e.get("op") == "Poll" and e.get("taps") and e["taps"][-1] and e["ret"]["t"] == "Pending", corrupt_tap)

rmwork(work)
print("SELFTEST " + ("OK" if ok else "FAILED"))
sys.exit(0 if ok else 1)
