#!/bin/sh
# Build the conformance harness against /repo's current working tree, offline.
set -e
cd "$(dirname "$0")"
mkdir -p work evidence replays
[ -f harness/Cargo.lock ] || cp /repo/Cargo.lock harness/Cargo.lock
cd harness
CARGO_NET_OFFLINE=true cargo build --offline --release
