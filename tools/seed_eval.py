#!/usr/bin/env python3
"""Confirm a seeded change (from a scratch worktree) and run checks against it.

usage: seed_eval.py <seed-id> <worktree> <demo-crate> <demo-test-name> <breaks-property> <check> [<check> ...]
 1. in the worktree: suite passes with the change, demo fails with it and passes without it;
 2. copies patch.diff / demo / notes to /verif/seeded/<seed-id>/;
 3. applies the patch to /repo, runs the given checks (quick tier), restores /repo;
 4. writes meta.json with what was run and which checks caught it.
"""
import json, os, shutil, subprocess, sys, time

sid, wt, crate, demo, prop = sys.argv[1:6]
checks = sys.argv[6:]
dst = "/verif/seeded/" + sid
os.makedirs(dst, exist_ok=True)


def sh(cmd, cwd=None, timeout=3000):
    p = subprocess.run(cmd, shell=True, cwd=cwd, stdout=subprocess.PIPE, stderr=subprocess.STDOUT, text=True, timeout=timeout)
    return p.returncode, p.stdout


meta = dict(id=sid, breaks=prop, ran=[])
patch = os.path.join(wt, "seed", "patch.diff")
# --- 1. confirm in the scratch worktree
rc, out = sh("git stash list; git status --short", cwd=wt)
rc_suite, out_suite = sh("cargo test --workspace --no-fail-fast --offline --exclude-from-test-dummy 2>/dev/null || true", cwd=wt)
# run the pinned suite with the demo moved aside
demo_path = None
for root, _, files in os.walk(wt):
    if "target" in root.split(os.sep):
        continue
    for f in files:
        if f == demo + ".rs" and "seed" not in root.split(os.sep):
            demo_path = os.path.join(root, f)
assert demo_path, "demo test file not found"
aside = demo_path + ".aside"
os.rename(demo_path, aside)
rc_suite, out_suite = sh("cargo test --workspace --no-fail-fast --offline 2>&1 | grep -E '^test result|FAILED|^error' ", cwd=wt)
os.rename(aside, demo_path)
suite_ok = "FAILED" not in out_suite and "error" not in out_suite and "test result: ok" in out_suite
meta["ran"].append(dict(cmd="cargo test --workspace --no-fail-fast --offline (change applied, demo aside)", ok=suite_ok))
feat = " --features async-lock" if crate == "eyeball" else ""
rc_with, out_with = sh("cargo test -p %s --test %s --offline%s 2>&1 | tail -5" % (crate, demo, feat), cwd=wt)
demo_fails_with = "test result: FAILED" in out_with or "panicked" in out_with or ("error" in out_with and "test result: ok" not in out_with)
meta["ran"].append(dict(cmd="demo with change", fails=demo_fails_with))
# without the change: reverse-apply the patch
rc, out = sh("git apply -R seed/patch.diff", cwd=wt)
assert rc == 0, "cannot reverse patch: " + out
rc_wo, out_wo = sh("cargo test -p %s --test %s --offline%s 2>&1 | tail -5" % (crate, demo, feat), cwd=wt)
demo_passes_without = "test result: ok" in out_wo
meta["ran"].append(dict(cmd="demo without change", passes=demo_passes_without))
sh("git apply seed/patch.diff", cwd=wt)
meta["confirmed"] = bool(suite_ok and demo_fails_with and demo_passes_without)
print("suite_ok=%s demo_fails_with=%s demo_passes_without=%s" % (suite_ok, demo_fails_with, demo_passes_without), flush=True)
# --- 2. keep
shutil.copy(patch, os.path.join(dst, "patch.diff"))
shutil.copy(demo_path, os.path.join(dst, os.path.basename(demo_path)))
notes = os.path.join(wt, "seed", "NOTES.md")
if os.path.exists(notes):
    shutil.copy(notes, os.path.join(dst, "NOTES.md"))
# --- 3. run checks against /repo + patch
rc, out = sh("git -C /repo status --short")
assert out.strip() == "", "/repo not clean: " + out
rc, out = sh("git -C /repo apply " + patch)
assert rc == 0, "patch does not apply to /repo: " + out
results = {}
try:
    for c in checks:
        t0 = time.time()
        rc, out = sh("./check %s --tier quick" % c, cwd="/verif")
        viol = [l for l in out.splitlines() if l.startswith("VIOLATION")]
        results[c] = dict(exit=rc, violations=len(viol), first=(viol[0] if viol else None), wall_s=round(time.time() - t0, 1),
                          clauses=[l.strip() for l in out.splitlines() if l.strip().startswith("clause=")][:3])
        print(c, results[c], flush=True)
finally:
    sh("git -C /repo checkout -- .")
meta["checks"] = results
meta["caught_by"] = [c for c, r in results.items() if r["exit"] == 1]
json.dump(meta, open(os.path.join(dst, "meta.json"), "w"), indent=1)
print("caught_by", meta["caught_by"])
