//! Replayer for the `obs` layer (crate `eyeball`, default/sync flavour).
//!
//! A behaviour is a JSON array of records `{op,h,a,b,n}` as produced by the
//! TLA+ module Obs (variable `hist`).  Every operation is executed on the real
//! objects; the recorder writes the operation with its result, the wake flags
//! of the subscribers' latest wakers and the count functions.

use std::{
    collections::BTreeMap,
    future::Future,
    mem,
    pin::Pin,
    sync::Arc,
    task::{Context, Poll},
};

use eyeball::{
    Observable, ObservableReadGuard, ObservableWriteGuard, SharedObservable, Subscriber,
    WeakObservable,
};
use futures_core::Stream;
use serde_json::{json, Value};

use crate::util::*;

enum Owner {
    Unique(Box<Observable<Elem>>),
    Shared(Box<SharedObservable<Elem>>),
}

enum Guard {
    Read(#[allow(dead_code)] ObservableReadGuard<'static, Elem>),
    Write(ObservableWriteGuard<'static, Elem>),
}

impl Guard {
    fn get(&self) -> i64 {
        match self {
            Guard::Read(g) => g.val(),
            Guard::Write(g) => g.val(),
        }
    }
}

#[derive(Default)]
struct Ctx {
    // NOTE: field order = drop order; guards borrow from subs/owners.
    guards: BTreeMap<i64, Guard>,
    subs: BTreeMap<i64, Box<Subscriber<Elem>>>,
    owners: BTreeMap<i64, Owner>,
    weaks: BTreeMap<i64, WeakObservable<Elem>>,
    flags: BTreeMap<i64, Arc<Flag>>,
    nv: i64,
    reuse_wakers: bool,
}

fn ret(t: &str, v: i64) -> Value {
    json!({"t": t, "v": v})
}

unsafe fn extend_r<'a>(g: ObservableReadGuard<'a, Elem>) -> ObservableReadGuard<'static, Elem> {
    mem::transmute(g)
}
unsafe fn extend_w<'a>(g: ObservableWriteGuard<'a, Elem>) -> ObservableWriteGuard<'static, Elem> {
    mem::transmute(g)
}

impl Ctx {
    fn shared(&self, h: i64) -> &SharedObservable<Elem> {
        match self.owners.get(&h) {
            Some(Owner::Shared(s)) => s,
            _ => panic!("harness: owner {h} is not a live SharedObservable"),
        }
    }

    fn poll_res(p: Poll<Option<i64>>) -> Value {
        match p {
            Poll::Pending => ret("Pending", 0),
            Poll::Ready(Some(v)) => ret("Some", v),
            Poll::Ready(None) => ret("End", 0),
        }
    }

    fn exec(&mut self, o: &Value) -> Value {
        let op = gets(o, "op");
        let h = geti(o, "h");
        let a = geti(o, "a");
        let b = geti(o, "b") != 0;
        let n = geti(o, "n");
        let nv = self.nv;
        let opt = |r: Option<Elem>| match r {
            Some(p) => ret("Val", p.val()),
            None => ret("Nil", 0),
        };
        match op {
            // ------------------------------------------------ writers (owner)
            "Set" => match self.owners.get_mut(&h).expect("owner") {
                Owner::Unique(ob) => ret("Val", Observable::set(ob, Elem::new(a)).val()),
                Owner::Shared(ob) => ret("Val", ob.set(Elem::new(a)).val()),
            },
            "Take" => match self.owners.get_mut(&h).expect("owner") {
                Owner::Unique(ob) => ret("Val", Observable::take(ob).val()),
                Owner::Shared(ob) => ret("Val", ob.take().val()),
            },
            "SetIfNotEq" => match self.owners.get_mut(&h).expect("owner") {
                Owner::Unique(ob) => opt(Observable::set_if_not_eq(ob, Elem::new(a))),
                Owner::Shared(ob) => opt(ob.set_if_not_eq(Elem::new(a))),
            },
            "SetIfHashNotEq" => match self.owners.get_mut(&h).expect("owner") {
                Owner::Unique(ob) => opt(Observable::set_if_hash_not_eq(ob, Elem::new(a))),
                Owner::Shared(ob) => opt(ob.set_if_hash_not_eq(Elem::new(a))),
            },
            "Update" => {
                let f = |e: &mut Elem| e.v = (e.v + a).rem_euclid(nv);
                match self.owners.get_mut(&h).expect("owner") {
                    Owner::Unique(ob) => Observable::update(ob, f),
                    Owner::Shared(ob) => ob.update(f),
                }
                ret("Nil", 0)
            }
            "UpdateIf" => {
                let f = |e: &mut Elem| {
                    e.v = (e.v + a).rem_euclid(nv);
                    b
                };
                match self.owners.get_mut(&h).expect("owner") {
                    Owner::Unique(ob) => Observable::update_if(ob, f),
                    Owner::Shared(ob) => ob.update_if(f),
                }
                ret("Nil", 0)
            }
            // ------------------------------------------- writers (write guard)
            "GSet" | "GTake" | "GSetIfNotEq" | "GSetIfHashNotEq" | "GUpdate" | "GUpdateIf" => {
                let g = match self.guards.get_mut(&h).expect("guard") {
                    Guard::Write(g) => g,
                    _ => panic!("harness: guard {h} is not a write guard"),
                };
                match op {
                    "GSet" => ret("Val", ObservableWriteGuard::set(g, Elem::new(a)).val()),
                    "GTake" => ret("Val", ObservableWriteGuard::take(g).val()),
                    "GSetIfNotEq" => opt(ObservableWriteGuard::set_if_not_eq(g, Elem::new(a))),
                    "GSetIfHashNotEq" => {
                        opt(ObservableWriteGuard::set_if_hash_not_eq(g, Elem::new(a)))
                    }
                    "GUpdate" => {
                        ObservableWriteGuard::update(g, |e| e.v = (e.v + a).rem_euclid(nv));
                        ret("Nil", 0)
                    }
                    _ => {
                        ObservableWriteGuard::update_if(g, |e| {
                            e.v = (e.v + a).rem_euclid(nv);
                            b
                        });
                        ret("Nil", 0)
                    }
                }
            }
            // ------------------------------------------------ owner, other
            "Get" => match self.owners.get(&h).expect("owner") {
                Owner::Unique(ob) => {
                    // both access paths: Observable::get and Deref
                    let x = Observable::get(ob).val();
                    let y = (***ob).v;
                    ret("Val", if x == y { x } else { -1000 })
                }
                Owner::Shared(ob) => ret("Val", ob.get().val()),
            },
            "Subscribe" => {
                let s = match self.owners.get(&h).expect("owner") {
                    Owner::Unique(ob) => Observable::subscribe(ob),
                    Owner::Shared(ob) => ob.subscribe(),
                };
                self.subs.insert(n, Box::new(s));
                self.flags.remove(&n);
                ret("Nil", 0)
            }
            "SubscribeReset" => {
                let s = match self.owners.get(&h).expect("owner") {
                    Owner::Unique(ob) => Observable::subscribe_reset(ob),
                    Owner::Shared(ob) => ob.subscribe_reset(),
                };
                self.subs.insert(n, Box::new(s));
                self.flags.remove(&n);
                ret("Nil", 0)
            }
            "CloneOwner" => {
                let c = self.shared(h).clone();
                self.owners.insert(n, Owner::Shared(Box::new(c)));
                ret("Nil", 0)
            }
            "DropOwner" => {
                let o = self.owners.remove(&h).expect("owner");
                drop(o);
                ret("Nil", 0)
            }
            "IntoShared" => {
                match self.owners.remove(&h).expect("owner") {
                    Owner::Unique(ob) => {
                        let sh = Observable::into_shared(*ob);
                        self.owners.insert(h, Owner::Shared(Box::new(sh)));
                    }
                    _ => panic!("harness: IntoShared on shared"),
                }
                ret("Nil", 0)
            }
            "Downgrade" => {
                let w = self.shared(h).downgrade();
                self.weaks.insert(n, w);
                ret("Nil", 0)
            }
            "CloneWeak" => {
                let w = self.weaks.get(&h).expect("weak").clone();
                self.weaks.insert(n, w);
                ret("Nil", 0)
            }
            "DropWeak" => {
                self.weaks.remove(&h).expect("weak");
                ret("Nil", 0)
            }
            "Upgrade" => match self.weaks.get(&h).expect("weak").upgrade() {
                Some(o) => {
                    if n > 0 {
                        self.owners.insert(n, Owner::Shared(Box::new(o)));
                    }
                    ret("Ok", 0)
                }
                None => ret("Fail", 0),
            },
            // ------------------------------------------------ guards
            "Read" => {
                let g = unsafe { extend_r(self.shared(h).read()) };
                let v = g.val();
                self.guards.insert(n, Guard::Read(g));
                ret("Val", v)
            }
            "TryRead" => {
                let r = self.shared(h).try_read().ok().map(|g| unsafe { extend_r(g) });
                match r {
                    Some(g) => {
                        let v = g.val();
                        self.guards.insert(n, Guard::Read(g));
                        ret("Val", v)
                    }
                    None => ret("Fail", 0),
                }
            }
            "Write" => {
                let g = unsafe { extend_w(self.shared(h).write()) };
                let v = g.val();
                self.guards.insert(n, Guard::Write(g));
                ret("Val", v)
            }
            "TryWrite" => {
                let r = self.shared(h).try_write().ok().map(|g| unsafe { extend_w(g) });
                match r {
                    Some(g) => {
                        let v = g.val();
                        self.guards.insert(n, Guard::Write(g));
                        ret("Val", v)
                    }
                    None => ret("Fail", 0),
                }
            }
            "GuardGet" => ret("Val", self.guards.get(&h).expect("guard").get()),
            "DropGuard" => {
                self.guards.remove(&h).expect("guard");
                ret("Nil", 0)
            }
            // ------------------------------------------------ subscribers
            "Poll" | "PollNext" | "PollNextRef" => {
                // waker policy: a fresh waker per poll, or the subscriber's one waker again (cleared first)
                let flag = match self.flags.get(&h) {
                    Some(f) if self.reuse_wakers => {
                        f.clear();
                        f.clone()
                    }
                    _ => Flag::new(),
                };
                let waker = waker_of(&flag);
                let mut cx = Context::from_waker(&waker);
                let sub = self.subs.get_mut(&h).expect("sub");
                let r = match op {
                    "Poll" => Pin::new(&mut **sub).poll_next(&mut cx).map(|o| o.map(|e| e.val())),
                    "PollNext" => {
                        let mut fut = sub.next();
                        Pin::new(&mut fut).poll(&mut cx).map(|o| o.map(|e| e.val()))
                    }
                    _ => {
                        let mut fut = Box::pin(sub.next_ref());
                        fut.as_mut().poll(&mut cx).map(|o| o.map(|g| g.val()))
                    }
                };
                self.flags.insert(h, flag);
                Self::poll_res(r)
            }
            "NextNow" => ret("Val", self.subs.get_mut(&h).expect("sub").next_now().val()),
            "NextRefNow" => {
                let sub: *mut Subscriber<Elem> = &mut **self.subs.get_mut(&h).expect("sub");
                let g = unsafe { extend_r((*sub).next_ref_now()) };
                let v = g.val();
                self.guards.insert(n, Guard::Read(g));
                ret("Val", v)
            }
            "SubGet" => ret("Val", self.subs.get(&h).expect("sub").get().val()),
            "SubRead" => {
                let g = unsafe { extend_r(self.subs.get(&h).expect("sub").read()) };
                let v = g.val();
                self.guards.insert(n, Guard::Read(g));
                ret("Val", v)
            }
            "Reset" => {
                self.subs.get_mut(&h).expect("sub").reset();
                ret("Nil", 0)
            }
            "CloneSub" => {
                let c = self.subs.get(&h).expect("sub").as_ref().clone();
                self.subs.insert(n, Box::new(c));
                self.flags.remove(&n);
                ret("Nil", 0)
            }
            "CloneReset" => {
                let c = self.subs.get(&h).expect("sub").clone_reset();
                self.subs.insert(n, Box::new(c));
                self.flags.remove(&n);
                ret("Nil", 0)
            }
            "DropSub" => {
                self.subs.remove(&h).expect("sub");
                self.flags.remove(&h);
                ret("Nil", 0)
            }
            other => panic!("harness: unknown obs op {other}"),
        }
    }

    /// Observations after each call: wake flags and the count functions.
    fn observe(&self) -> (Value, Value) {
        let wk: Vec<i64> = self
            .flags
            .iter()
            .filter(|(s, f)| self.subs.contains_key(s) && f.is_set())
            .map(|(s, _)| *s)
            .collect();
        let cnt = match self.owners.values().next() {
            Some(Owner::Unique(ob)) => {
                json!({"oc": -1, "sc": Observable::subscriber_count(ob) as i64, "st": -1, "wc": -1})
            }
            Some(Owner::Shared(ob)) => json!({
                "oc": ob.observable_count() as i64,
                "sc": ob.subscriber_count() as i64,
                "st": ob.strong_count() as i64,
                "wc": ob.weak_count() as i64}),
            None => json!({"oc": -1, "sc": -1, "st": -1, "wc": -1}),
        };
        (json!(wk), cnt)
    }
}

pub fn run_behaviour(tr: &Tracer, run: i64, ops: &[Value], nv: i64) {
    let mut cx = Ctx { nv, reuse_wakers: geti(&ops[0], "n") == 1, ..Default::default() };
    let first = &ops[0];
    assert_eq!(gets(first, "op"), "New");
    let shared = geti(first, "b") != 0;
    let init = geti(first, "a");
    tr.emit(&json!({"e": "Begin", "run": run, "layer": "obs", "flavor": "sync",
                    "shared": if shared {1} else {0}, "init": init, "nv": nv}));
    if shared {
        cx.owners.insert(1, Owner::Shared(Box::new(SharedObservable::new(Elem::new(init)))));
    } else {
        cx.owners.insert(1, Owner::Unique(Box::new(Observable::new(Elem::new(init)))));
    }
    for o in &ops[1..] {
        let mut ev = json!({"e": "Call", "run": run, "op": o["op"], "h": geti(o, "h"),
                            "a": geti(o, "a"), "b": geti(o, "b"), "n": geti(o, "n")});
        tr.begin_call(ev.clone());
        let r = catch(|| cx.exec(o));
        tr.end_call();
        let panicked = r.is_err();
        ev["ret"] = r.unwrap_or_else(|_| ret("Panic", 0));
        let (wk, cnt) = if panicked { (json!([]), json!({"oc":-1,"sc":-1,"st":-1,"wc":-1})) } else { cx.observe() };
        ev["wk"] = wk;
        ev["cnt"] = cnt;
        if tracking() {
            ev["tok"] = Value::Array(drain_tok_log());
        }
        tr.emit(&ev);
        if panicked {
            // the object graph may be inconsistent: leak it and stop this run
            mem::forget(cx);
            return;
        }
    }
    // tear down: guards first, then everything else
    let r = catch(move || drop(cx));
    let mut end = json!({"e": "EndRun", "run": run, "ok": if r.is_ok() {1} else {0}});
    if tracking() {
        end["tok"] = Value::Array(drain_tok_log());
    }
    tr.emit(&end);
}

pub fn replay(path: &str, out: &str, nv: i64) {
    let tr = Tracer::create(out);
    let tr2 = tr.clone();
    let path = path.to_string();
    with_watchdog(tr, 20, move || {
        for (i, b) in read_lines(&path).enumerate() {
            let ops = b.as_array().expect("behaviour must be an array");
            run_behaviour(&tr2, i as i64 + 1, ops, nv);
        }
    });
}
