------------------------------ MODULE TraceObsAsync ------------------------------
(***************************************************************************)
(* Trace validation for the `obs` layer, ASYNC-LOCK flavour (C16): TraceObs *)
(* over ObsAsync.tla, plus the lock-wait wake-up clauses.                  *)
(*                                                                         *)
(* The harness recorded, for every call it made on the real objects, the   *)
(* call, its result, the wake flags of the subscribers' latest wakers and  *)
(* the count functions.  This module replays the calls through the actions *)
(* of Obs.tla and evaluates the property clauses on each observation.      *)
(*                                                                         *)
(* Deterministic: every event is fully logged, so the behaviour of this    *)
(* spec is one line of Len(Rec)+1 states.  A failed clause does not stop   *)
(* TLC: one line <<"V", run, event, property, clause, detail>> is printed  *)
(* per (run, property); if the failed clause determines the state (a wrong *)
(* result) the run is skipped up to the next Begin.                        *)
(***************************************************************************)
EXTENDS ObsAsync, Json, IOUtils, TLCExt

CONSTANT Flavor      \* "sync" | "async": which lock flavour produced the trace

Rec == ndJsonDeserialize(IOEnv.TRACE)

VARIABLES l,         \* index of the next event
          poisoned,  \* the current run can no longer be followed
          seen,      \* properties already reported for the current run
          assume2    \* the run was GENERATED assuming a two-stage next() (Begin.two); if the implementation takes the other
                     \* admissible branch at the choice point the rest of the run is meaningless and is skipped

tvars == <<allvars, l, poisoned, seen, assume2>>

TraceInit ==
    /\ l = 1 /\ poisoned = TRUE /\ seen = {} /\ assume2 = TRUE
    /\ kind = "shared" /\ val = 0 /\ ver = 1 /\ owners = {} /\ weaks = {} /\ subs = {}
    /\ obs = [s \in SubIds |-> 0] /\ unseen = [s \in SubIds |-> FALSE]
    /\ armed = [s \in SubIds |-> FALSE]
    /\ registered = {} /\ woken = {} /\ owed = {}
    /\ guards = [g \in GuardIds |-> NoGuard]
    /\ ret = RNil /\ hist = <<>>
    /\ q = <<>> /\ granted = {} /\ futs = [f \in FutIds |-> NoFut]
    /\ TLCSet(1, 0) /\ TLCSet(2, 0) /\ TLCSet(3, 0) /\ TLCSet(4, 0) /\ TLCSet(5, 0) /\ TLCSet(6, 0) /\ TLCSet(7, 0) /\ TLCSet(8, 0)

Bump(i) == TLCSet(i, TLCGet(i) + 1)

(* Begin: a fresh observable as configured by the harness *)
DoBegin(e) ==
    /\ kind' = IF e.shared = 1 THEN "shared" ELSE "unique"
    /\ val' = e.init /\ ver' = 1 /\ owners' = {1} /\ weaks' = {} /\ subs' = {}
    /\ obs' = [s \in SubIds |-> 0] /\ unseen' = [s \in SubIds |-> FALSE]
    /\ armed' = [s \in SubIds |-> FALSE]
    /\ registered' = {} /\ woken' = {} /\ owed' = {}
    /\ guards' = [g \in GuardIds |-> NoGuard]
    /\ ret' = RNil /\ hist' = <<>>
    /\ q' = <<>> /\ granted' = {} /\ futs' = [f \in FutIds |-> NoFut]
    /\ poisoned' = FALSE /\ seen' = {} /\ assume2' = (e.two = 1)
    /\ Bump(1)

(* The Obs action named by a Call event, arguments bound from the event *)
PlainAction(e) ==
    \/ e.op = "Set" /\ Set("o", e.h, e.a)
    \/ e.op = "GSet" /\ Set("g", e.h, e.a)
    \/ e.op = "Take" /\ Take("o", e.h)
    \/ e.op = "GTake" /\ Take("g", e.h)
    \/ e.op = "SetIfNotEq" /\ SetIfNotEq("o", e.h, e.a)
    \/ e.op = "GSetIfNotEq" /\ SetIfNotEq("g", e.h, e.a)
    \/ e.op = "SetIfHashNotEq" /\ SetIfHashNotEq("o", e.h, e.a)
    \/ e.op = "GSetIfHashNotEq" /\ SetIfHashNotEq("g", e.h, e.a)
    \/ e.op = "Update" /\ Update("o", e.h, e.a)
    \/ e.op = "GUpdate" /\ Update("g", e.h, e.a)
    \/ e.op = "UpdateIf" /\ UpdateIf("o", e.h, e.a, e.b = 1)
    \/ e.op = "GUpdateIf" /\ UpdateIf("g", e.h, e.a, e.b = 1)
    \/ e.op = "Get" /\ OwnerGet(e.h)
    \/ e.op = "Subscribe" /\ Subscribe(e.h, e.n)
    \/ e.op = "SubscribeReset" /\ SubscribeReset(e.h, e.n)
    \/ e.op = "CloneOwner" /\ CloneOwner(e.h, e.n)
    \/ e.op = "DropOwner" /\ DropOwner(e.h)
    \/ e.op = "IntoShared" /\ IntoShared(e.h)
    \/ e.op = "Downgrade" /\ Downgrade(e.h, e.n)
    \/ e.op = "CloneWeak" /\ CloneWeak(e.h, e.n)
    \/ e.op = "DropWeak" /\ DropWeak(e.h)
    \/ e.op = "Upgrade" /\ Upgrade(e.h, e.n)
    \/ e.op = "Read" /\ OwnerRead(e.h, e.n)
    \/ e.op = "TryRead" /\ OwnerTryRead(e.h, e.n)
    \/ e.op = "Write" /\ OwnerWrite(e.h, e.n)
    \/ e.op = "TryWrite" /\ OwnerTryWrite(e.h, e.n)
    \/ e.op = "GuardGet" /\ GuardGet(e.h)
    \/ e.op \in PollVias /\ ReadNow /\ e.h \notin lockWait /\ Poll(e.h, e.op)
    \/ e.op = "NextNow" /\ NextNow(e.h)
    \/ e.op = "NextRefNow" /\ NextRefNow(e.h, e.n)
    \/ e.op = "SubGet" /\ SubGet(e.h)
    \/ e.op = "SubRead" /\ SubRead(e.h, e.n)
    \/ e.op = "Reset" /\ Reset(e.h)
    \/ e.op = "CloneSub" /\ CloneSub(e.h, e.n)
    \/ e.op = "CloneReset" /\ CloneReset(e.h, e.n)
    \/ e.op = "DropSub" /\ DropSub(e.h)

ObsAction(e) ==
    \/ PlainAction(e) /\ UNCHANGED avars
    \/ e.op = "DropGuard" /\ DropGuardA(e.h)
    \/ e.op \in PollVias /\ e.h \notin lockWait /\ ~ReadNow /\ PollBlocked(e.h, e.op)
    \/ e.op \in PollVias /\ e.h \in lockWait /\ PollWaiting(e.h, e.op, e.ret.t = "Pending")
    \/ e.op = "StartSet" /\ StartWriter(e.h, e.n, "Set", e.a)
    \/ e.op = "StartSetIfNotEq" /\ StartWriter(e.h, e.n, "SetIfNotEq", e.a)
    \/ e.op = "StartUpdate" /\ StartWriter(e.h, e.n, "Update", e.a)
    \/ e.op = "PollFut" /\ PollFut(e.h)

(***************************************************************************)
(* Clauses.  Each is evaluated in the state AFTER the call (primed).       *)
(***************************************************************************)
TryOps == {"TryRead", "TryWrite"}

(* which property a wrong result belongs to *)
RetProp(e, expected) ==
    IF e.op \in TryOps \/ e.op \in {"Read", "Write", "GuardGet"} THEN "C04"
    ELSE IF e.op = "Upgrade" THEN "C03"
    ELSE IF e.op \in PollVias /\ (expected.t = "End" \/ e.ret.t = "End") THEN "C03"
    ELSE IF ver' = 0 /\ e.op \in {"SubGet", "NextNow", "SubRead", "NextRefNow"} THEN "C03"
    ELSE "C01"

RetOk(e) == e.ret = ret'

WakeOk(e) == \A s \in MustBeWoken' : \E j \in 1..Len(e.wk) : e.wk[j] = s
(* C16: whoever is handed the lock (the queue is served whenever the lock is released) has been woken *)
LockWakeOk(e) == /\ \A s \in lwoken' : \E j \in 1..Len(e.wk) : e.wk[j] = s
                 /\ \A f \in fwoken' : \E j \in 1..Len(e.fwk) : e.fwk[j] = f

CountsOk(e) ==
    IF owners' = {} \/ e.cnt.sc = -1 THEN TRUE
    ELSE IF kind' = "unique" THEN e.cnt.sc = Cardinality(subs')
    ELSE /\ e.cnt.oc = Cardinality(owners')
         /\ e.cnt.sc = Cardinality(subs')
         /\ e.cnt.st = Cardinality(owners') + Cardinality(subs')
         /\ e.cnt.wc = Cardinality(weaks')

Failures(e) ==
    (IF RetOk(e) THEN {} ELSE {<<RetProp(e, ret'), "ret">>})
    \cup (IF WakeOk(e) THEN {} ELSE {<<"C02", "wake">>})
    \cup (IF CountsOk(e) THEN {} ELSE {<<"C19", "counts">>})
    \cup (IF LockWakeOk(e) THEN {} ELSE {<<"C16", "lock-wake">>})

Report(e, f) ==
    PrintT(<<"V", e.run, l, f[1], f[2],
             ToJson([op |-> e.op, h |-> e.h, a |-> e.a, b |-> e.b, n |-> e.n, got |-> e.ret,
                     expected |-> ret', wk |-> e.wk, mustwake |-> MustBeWoken', cnt |-> e.cnt,
                     owners |-> owners', subs |-> subs', weaks |-> weaks', kind |-> kind'])>>)

(* non-vacuity counters: how often each clause's antecedent was exercised *)
Exercise(e) ==
    /\ Bump(2)                                                   \* calls followed
    /\ (MustBeWoken' # {} => Bump(3))                            \* C02 antecedent
    /\ (ver' = 0 /\ e.op \in PollVias \cup {"SubGet", "NextNow", "Upgrade"} => Bump(4))  \* C03 after the end
    /\ (e.op \in PollVias /\ ret'.t = "Some" => Bump(5))         \* C01 ready polls
    /\ (e.cnt.sc # -1 /\ Cardinality(subs') + Cardinality(weaks') > 0 => Bump(6))   \* C19 non-trivial counts
    /\ (lwoken' # {} \/ fwoken' # {} => Bump(7))               \* C16 lock waiters owed a wake-up
    /\ (e.op = "PollFut" /\ ret'.t # "Pending" => Bump(8))       \* C16 pending writer completed

DoCall(e) ==
    /\ ObsAction(e)
    /\ LET fails == Failures(e) IN
         /\ \A f \in fails : (f[1] \notin seen) => Report(e, f)
         /\ seen' = seen \cup {f[1] : f \in fails}
         /\ poisoned' = (~RetOk(e) \/ (e.op = "PollNext" /\ AtChoicePoint(e.h, e.op) /\ (e.ret.t = "Pending") # assume2))
    /\ UNCHANGED assume2
    /\ Exercise(e)

Skip == UNCHANGED <<allvars, poisoned, seen, assume2>>

TraceNext ==
    /\ l <= Len(Rec)
    /\ l' = l + 1
    /\ LET e == Rec[l] IN
         IF e.e = "Begin" THEN DoBegin(e)
         ELSE IF poisoned \/ e.e # "Call" THEN Skip
         ELSE DoCall(e)

TraceSpec == TraceInit /\ [][TraceNext]_tvars

(* the whole file was consumed: anything else is a tool error *)
TraceAccepted ==
    LET d == TLCGet("stats").diameter IN
    IF d - 1 = Len(Rec)
    THEN PrintT(<<"STATS", ToJson(<<Len(Rec), TLCGet(1), TLCGet(2), TLCGet(3), TLCGet(4), TLCGet(5), TLCGet(6), TLCGet(7), TLCGet(8)>>)>>)
    ELSE /\ PrintT(<<"STUCK", d, IF d <= Len(Rec) THEN ToJson(Rec[d]) ELSE "eof">>)
         /\ FALSE
=============================================================================
