------------------------------ MODULE TraceAlgo ------------------------------
(***************************************************************************)
(* Arm-by-arm conformance of the real Head / Tail / Skip against           *)
(* AdapterAlgo.tla.  Each recorded case: source s, parameter p, ONE input  *)
(* diff d (or a parameter change p -> new), the adapter's initial values   *)
(* and everything it emitted until Pending.  Verdict clauses are the       *)
(* property's (initial values = view, emitted diffs applicable and         *)
(* rebuilding the view, limit never exceeded, no empty batch); the exact   *)
(* comparison with the transcription only feeds the DRIFT counter.         *)
(***************************************************************************)
EXTENDS AdapterAlgo, TLC, Json, IOUtils, TLCExt
Rec == ndJsonDeserialize(IOEnv.TRACE)
VARIABLE l
Bump(i) == TLCSet(i, TLCGet(i) + 1)

RECURSIVE Flat(_)
Flat(bs) == IF bs = <<>> THEN <<>> ELSE Head(bs) \o Flat(Tail(bs))

KindProp(e) == IF e.kind \in {"filter", "filter_map"} THEN "C10" ELSE "C09"

Failures(e) ==
    LET isLimit == e.new >= 0
        src2 == IF isLimit THEN e.s ELSE Apply(e.d, e.s)
        p2   == IF isLimit THEN e.new ELSE e.p
        ds   == Flat(e.items)
        okInit == e.init = ViewOf(e.kind, e.p, e.s)
    IN (IF e.end = "Panic" THEN {<<KindProp(e), "panic">>} ELSE {})
       \cup (IF e.end # "Panic" /\ ~okInit THEN {<<KindProp(e), "init-view">>} ELSE {})
       \cup (IF e.end # "Panic" /\ e.kind \in {"head", "tail"} /\ Len(e.init) > e.p THEN {<<"C15", "init-exceeds-limit">>} ELSE {})
       \cup (IF e.end # "Panic" /\ okInit /\ ~AllApplicable(ds, e.init) THEN {<<KindProp(e), "inapplicable">>} ELSE {})
       \cup (IF e.end # "Panic" /\ okInit /\ AllApplicable(ds, e.init) /\ ApplyAll(ds, e.init) # ViewOf(e.kind, p2, src2)
             THEN {<<KindProp(e), "view">>} ELSE {})
       \cup (IF e.end \notin {"Pending", "Panic"} THEN {<<KindProp(e), "end">>} ELSE {})
       \cup (IF e.end # "Panic" /\ okInit /\ ~isLimit /\ e.kind \in {"head", "tail"} /\ AllApplicable(ds, e.init)
                /\ \E j \in 1..Len(ds) : Len(States(ds, e.init)[j]) > e.p
             THEN {<<"C15", "exceeds-limit">>} ELSE {})
       \cup (IF e.flav = "batched" /\ \E b \in 1..Len(e.items) : e.items[b] = <<>> THEN {<<"C13", "empty-batch">>} ELSE {})

TraceInit == l = 1 /\ TLCSet(1, 0) /\ TLCSet(2, 0) /\ TLCSet(3, 0)
TraceNext ==
    /\ l <= Len(Rec) /\ l' = l + 1
    /\ LET e == Rec[l] IN
         /\ \A f \in Failures(e) :
               PrintT(<<"V", e.run, l, f[1], f[2],
                        ToJson([op |-> "Case", kind |-> e.kind, s |-> e.s, p |-> e.p, d |-> e.d, new |-> e.new, flav |-> e.flav,
                                init |-> e.init, items |-> e.items, expect |-> e.expect, end |-> e.end,
                                d2 |-> (e.kind = "tail" /\ e.new >= 0 /\ D2Cond(e.s, e.p, e.new))])>>)
         /\ Bump(1)
         /\ (Flat(e.items) # e.expect => Bump(2))                  \* DRIFT: the transcription disagrees with the code
         /\ (Flat(e.items) # <<>> => Bump(3))
TraceSpec == TraceInit /\ [][TraceNext]_l
TraceAccepted ==
    LET d == TLCGet("stats").diameter IN
    IF d - 1 = Len(Rec) THEN PrintT(<<"STATS", ToJson(<<Len(Rec), TLCGet(1), TLCGet(2), TLCGet(3)>>)>>)
    ELSE PrintT(<<"STUCK", d>>) /\ FALSE
=============================================================================
