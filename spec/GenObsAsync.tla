----------------------------- MODULE GenObsAsync -----------------------------
(* MC + behaviour generation for the async-lock flavour (ObsAsync.tla). *)
EXTENDS ObsAsync, Json
CONSTANT Depth
View == acore
Bound == Len(hist) <= Depth
BoundTree == Len(hist) <= Depth + 1
PrintAtDepth == Len(hist) = Depth + 1 => PrintT(<<"B", ToJson(hist)>>)
Edge == PrintT(<<"B", ToJson(hist')>>)
=============================================================================
