-------------------------------- MODULE Tokens --------------------------------
(***************************************************************************)
(* Ownership accounting for C20.  Every element instance given to, or      *)
(* cloned by, the library carries an id.  The specification is the         *)
(* obvious one: an instance is born once (New / Clone of a live one), may  *)
(* be used only while alive, dies exactly once, and nothing is alive after *)
(* every observable, vector, subscriber, stream and diff is gone.          *)
(***************************************************************************)
EXTENDS Integers, Sequences, FiniteSets

(* an event is <<kind, id, from>> with kind "n" new, "c" clone (from), "u" use, "d" drop *)
Step(live, ev) ==
    LET k == ev[1]  id == ev[2]  from == ev[3] IN
    CASE k = "n" -> [live |-> live \cup {id}, bad |-> IF id \in live THEN "id-reused" ELSE ""]
      [] k = "c" -> [live |-> live \cup {id}, bad |-> IF from \notin live THEN "clone-of-dropped-value"
                                                       ELSE IF id \in live THEN "id-reused" ELSE ""]
      [] k = "u" -> [live |-> live, bad |-> IF id \notin live THEN "use-after-drop" ELSE ""]
      [] k = "d" -> [live |-> live \ {id}, bad |-> IF id \notin live THEN "double-drop" ELSE ""]
      [] OTHER   -> [live |-> live, bad |-> "unknown-token-event"]

RECURSIVE Fold(_, _, _)
(* returns [live, bad, at]: bad = first failed clause ("" if none), at = index of that event *)
Fold(live, evs, n) ==
    IF evs = <<>> THEN [live |-> live, bad |-> "", at |-> 0]
    ELSE LET r == Step(live, Head(evs)) IN
         IF r.bad # "" THEN [live |-> r.live, bad |-> r.bad, at |-> n]
         ELSE Fold(r.live, Tail(evs), n + 1)
=============================================================================
