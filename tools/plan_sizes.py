#!/usr/bin/env python3
"""Measure how many behaviours each generation plan of a property yields (sizing aid)."""
import sys, os, time
sys.path.insert(0, os.path.dirname(os.path.dirname(os.path.abspath(__file__))))
from checklib import *
import layers
prop = sys.argv[1]; quick = (sys.argv[2] if len(sys.argv) > 2 else "quick") == "quick"
work = mkwork("size-" + prop)
for j, (spec, mode, consts, num) in enumerate(layers.ad_plans(prop, quick)):
    c = os.path.join(work, "Gen%d.cfg" % j); beh = os.path.join(work, "b%d.ndjson" % j)
    if mode == "edge":
        write_cfg(c, spec=spec, constants=consts, view="View", constraints=["Bound"], action_constraints=["Edge"])
        k, r = gen_behaviours("GenAdapters", c, work, beh, "edge", tag="g%d" % j, workers=12, timeout=600)
    elif mode == "tree":
        write_cfg(c, spec=spec, constants=consts, constraints=["BoundTree"], invariants=["PrintAtDepth"])
        k, r = gen_behaviours("GenAdapters", c, work, beh, "tree", tag="g%d" % j, workers=12, timeout=600)
    else:
        write_cfg(c, spec=spec, constants=consts, constraints=["BoundTree"], invariants=["PrintAtDepth"])
        k, r = gen_behaviours("GenAdapters", c, work, beh, "sim", num=num, depth=consts["Depth"] + 1, seed=1, tag="g%d" % j, timeout=600)
    ev = sum(len(json.loads(l)) for l in open(beh))
    print(prop, j, spec, mode, "behaviours", k, "events", ev, "%.1fs" % r["wall"], flush=True)
    os.remove(beh)
rmwork(work)
