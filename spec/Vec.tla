--------------------------------- MODULE Vec ---------------------------------
(***************************************************************************)
(* ObservableVector (crate eyeball-im): the vector, its broadcast channel, *)
(* subscriber streams (plain and batched), transactions and entry          *)
(* traversal, at operation granularity.                                    *)
(*                                                                         *)
(* Two descriptions live side by side:                                     *)
(*  - the IMPLEMENTATION-SHAPED part (chan, snext, srest, txn.batch):      *)
(*    which messages are sent and which diffs a poll yields, including     *)
(*    tokio's lag rule with the buffer rounded up to a power of two;       *)
(*  - the PROPERTY-LEVEL ghosts (replica, gmsgs, cands, armed, owed):      *)
(*    what a subscriber is entitled to, written from the property text:    *)
(*    every effective direct call is one message with a target state, a    *)
(*    committed transaction is one message, a no-op is none.  `Accept*`    *)
(*    decide whether a delivered item is allowed WITHOUT fixing which      *)
(*    diff kinds are used.                                                 *)
(* MCVec checks that the first always satisfies the second; TraceVec uses  *)
(* only the second to judge the real code.                                 *)
(***************************************************************************)
EXTENDS VecOps, TLC

CONSTANTS MaxDecs,       \* longest decision list of an entry traversal
          SubIds,        \* subscriber ids
          Caps,          \* capacities explored
          MaxLen,        \* longest vector generated
          LagThenClosedLosesState  \* TRUE: handle_lag's Closed arm drops the drained state (as coded before the fix)

VARIABLES alive, vals, cap, fresh,
          txn,            \* [open, work, batch, rec]
          chan,           \* messages stored by the channel: [diffs, state]
          subs, sflav, snext, srest,
          replica, gmsgs, cands, armed, owed,
          ret, out, hist

vars == <<alive, vals, cap, fresh, txn, chan, subs, sflav, snext, srest,
          replica, gmsgs, cands, armed, owed, ret, out, hist>>
core == <<alive, vals, cap, txn, chan, subs, sflav, snext, srest, replica, gmsgs, cands, armed, owed>>

NoTxn == [open |-> FALSE, work |-> <<>>, batch |-> <<>>, rec |-> "none"]

R(t, v, vs) == [t |-> t, v |-> v, vs |-> vs, bad |-> ""]
RNil == R("Nil", 0, <<>>)
RVal(v) == R("Val", v, <<>>)
RPanic == R("Panic", 0, <<>>)

H(op, t, s, i, v, vs, k) == [op |-> op, t |-> t, s |-> s, i |-> i, v |-> v, vs |-> vs, k |-> k]

Smallest(S) == IF S = {} THEN -1 ELSE CHOOSE x \in S : \A y \in S : x <= y

(***************************************************************************)
(* Property-level acceptance (shared with TraceVec)                        *)
(*                                                                         *)
(* gmsgs[s]  pending messages since the last synchronisation point, each   *)
(*           [n |-> "one" | "many" | "opt", t |-> target state]            *)
(* cands[s]  set of <<k, mid>>: k messages completely delivered, mid =     *)
(*           inside message k+1 (a multi-diff message).  A powerset        *)
(*           construction: no branching in the state space.                *)
(***************************************************************************)
RECURSIVE Closure(_, _)
Closure(C, msgs) ==
    LET more == {<<c[1] + 1, FALSE>> : c \in {x \in C : ~x[2] /\ x[1] < Len(msgs) /\ msgs[x[1] + 1].n = "opt"}}
    IN IF more \subseteq C THEN C ELSE Closure(C \cup more, msgs)

SuccCand(c, r2, msgs) ==
    IF c[2]
    THEN {<<c[1], TRUE>>} \cup (IF r2 = msgs[c[1] + 1].t THEN {<<c[1] + 1, FALSE>>} ELSE {})
    ELSE IF c[1] >= Len(msgs) THEN {}
    ELSE LET m == msgs[c[1] + 1] IN
         IF m.n = "one"
         THEN (IF r2 = m.t THEN {<<c[1] + 1, FALSE>>} ELSE {})
         ELSE {<<c[1], TRUE>>} \cup (IF r2 = m.t THEN {<<c[1] + 1, FALSE>>} ELSE {})

(* g = [rep, msgs, cands, bad]; bad = name of the first failed clause or "" *)
G(rep, msgs, cs, bad) == [rep |-> rep, msgs |-> msgs, cands |-> cs, bad |-> bad]

(* one delivered diff; cur = the vector's contents now, cp = capacity *)
AcceptDiff(g, d, cur, cp) ==
    IF g.bad # "" THEN g
    ELSE IF d.k = "Reset"
    THEN IF ~(\E c \in g.cands : ~c[2] /\ Len(g.msgs) - c[1] > cp)
         THEN G(g.rep, g.msgs, g.cands, "reset-without-lag")
         ELSE IF d.vs # cur THEN G(d.vs, g.msgs, g.cands, "reset-not-current")
         ELSE G(d.vs, g.msgs, {<<Len(g.msgs), FALSE>>}, "")
    ELSE IF ~Applicable(d, g.rep) THEN G(g.rep, g.msgs, g.cands, "inapplicable")
    ELSE LET r2 == Apply(d, g.rep)
             cs == Closure(UNION {SuccCand(c, r2, g.msgs) : c \in g.cands}, g.msgs)
         IN G(r2, g.msgs, cs, IF cs = {} THEN "unexplained-diff" ELSE "")

RECURSIVE AcceptDiffs(_, _, _, _)
AcceptDiffs(g, ds, cur, cp) ==
    IF ds = <<>> THEN g ELSE AcceptDiffs(AcceptDiff(g, Head(ds), cur, cp), Tail(ds), cur, cp)

UpToDate(g, cur) == <<Len(g.msgs), FALSE>> \in g.cands /\ g.rep = cur

(* one item of the batched stream: non-empty, and brings fully up to date *)
AcceptBatch(g, b, cur, cp) ==
    IF g.bad # "" THEN g
    ELSE IF b = <<>> THEN G(g.rep, g.msgs, g.cands, "empty-batch")
    ELSE LET g2 == AcceptDiffs(g, b, cur, cp) IN
         IF g2.bad # "" THEN g2
         ELSE IF ~UpToDate(g2, cur) THEN G(g2.rep, g2.msgs, g2.cands, "batch-not-up-to-date")
         ELSE g2

RECURSIVE AcceptItems(_, _, _, _, _)
(* items: sequence of batches (for the plain stream every batch holds one diff) *)
AcceptItems(g, items, flav, cur, cp) ==
    IF items = <<>> THEN g
    ELSE AcceptItems(IF flav = "batched" THEN AcceptBatch(g, Head(items), cur, cp)
                     ELSE AcceptDiffs(g, Head(items), cur, cp),
                     Tail(items), flav, cur, cp)

(* The poll group ended with Pending or End.  The replica must equal the   *)
(* contents (C06/C08).  A subscriber that can never have lagged (no more   *)
(* than `capacity` messages were pending) must in addition have received   *)
(* every message (C05); a lagging one may have skipped messages.           *)
AcceptSync(g, cur, cp) ==
    IF g.bad # "" THEN g
    ELSE IF g.rep # cur THEN G(g.rep, g.msgs, g.cands, "not-up-to-date-at-pending")
    ELSE IF Len(g.msgs) <= cp /\ <<Len(g.msgs), FALSE>> \notin g.cands
         THEN G(g.rep, g.msgs, g.cands, "diffs-missing")
    ELSE G(g.rep, <<>>, {<<0, FALSE>>}, "")

GOf(s) == G(replica[s], gmsgs[s], cands[s], "")

(***************************************************************************)
(* Channel                                                                 *)
(***************************************************************************)
BufLen == NextPow2(cap)
RxCount == Cardinality(subs)

(* a message is stored only when somebody can receive it *)
Send(diffs, state, kindOfMsg) ==
    /\ chan' = IF RxCount # 0 THEN Append(chan, [diffs |-> diffs, state |-> state]) ELSE chan
    /\ gmsgs' = [s \in SubIds |-> IF s \in subs THEN Append(gmsgs[s], [n |-> kindOfMsg, t |-> state]) ELSE gmsgs[s]]
    /\ cands' = [s \in SubIds |-> IF s \in subs THEN Closure(cands[s], gmsgs'[s]) ELSE cands[s]]
    /\ owed' = IF kindOfMsg = "opt" THEN owed ELSE owed \cup {s \in subs : armed[s]}

NoSend == UNCHANGED <<chan, gmsgs, cands, owed>>

(***************************************************************************)
(* Mutators.  where = "v" (directly on the vector) | "t" (through the open *)
(* transaction).  Each returns what a plain vector would.                   *)
(***************************************************************************)
Cur(where) == IF where = "t" THEN txn.work ELSE vals
CanMutate(where) == alive /\ (IF where = "t" THEN txn.open ELSE ~txn.open)

(* the effect of one effective mutation with diff d *)
Effect(where, d, newv) ==
    IF where = "v"
    THEN /\ vals' = newv /\ Send(<<d>>, newv, "one") /\ UNCHANGED txn
    ELSE /\ txn' = [txn EXCEPT !.work = newv,
                               !.batch = IF RxCount # 0 THEN Append(@, d) ELSE @,
                               !.rec = "some"]
         /\ UNCHANGED vals /\ NoSend

NoEffect == UNCHANGED <<vals, txn>> /\ NoSend

Frame == UNCHANGED <<alive, cap, subs, sflav, snext, srest, replica, armed, out>>

PushBack(w, v) ==
    /\ CanMutate(w) /\ Len(Cur(w)) < MaxLen /\ v = fresh /\ fresh' = fresh + 1
    /\ Effect(w, DPushBack(v), Append(Cur(w), v)) /\ ret' = RNil
    /\ hist' = Append(hist, H("PushBack", w, 0, 0, v, <<>>, 0)) /\ Frame

PushFront(w, v) ==
    /\ CanMutate(w) /\ Len(Cur(w)) < MaxLen /\ v = fresh /\ fresh' = fresh + 1
    /\ Effect(w, DPushFront(v), <<v>> \o Cur(w)) /\ ret' = RNil
    /\ hist' = Append(hist, H("PushFront", w, 0, 0, v, <<>>, 0)) /\ Frame

PopBack(w) ==
    /\ CanMutate(w) /\ UNCHANGED fresh
    /\ IF Cur(w) = <<>> THEN NoEffect /\ ret' = RNil
       ELSE Effect(w, DPopBack, SubSeq(Cur(w), 1, Len(Cur(w)) - 1)) /\ ret' = RVal(Cur(w)[Len(Cur(w))])
    /\ hist' = Append(hist, H("PopBack", w, 0, 0, 0, <<>>, 0)) /\ Frame

PopFront(w) ==
    /\ CanMutate(w) /\ UNCHANGED fresh
    /\ IF Cur(w) = <<>> THEN NoEffect /\ ret' = RNil
       ELSE Effect(w, DPopFront, Tail(Cur(w))) /\ ret' = RVal(Cur(w)[1])
    /\ hist' = Append(hist, H("PopFront", w, 0, 0, 0, <<>>, 0)) /\ Frame

(* out-of-range insert/set/remove/entry panic and change nothing *)
Insert(w, i, v) ==
    /\ CanMutate(w) /\ Len(Cur(w)) < MaxLen /\ v = fresh /\ fresh' = fresh + 1 /\ i <= Len(Cur(w)) + 2
    /\ IF i <= Len(Cur(w))
       THEN Effect(w, DInsert(i, v), InsertAt0(Cur(w), i, v)) /\ ret' = RNil
       ELSE NoEffect /\ ret' = RPanic
    /\ hist' = Append(hist, H("Insert", w, 0, i, v, <<>>, 0)) /\ Frame

SetAt(w, i, v, opname) ==
    /\ CanMutate(w) /\ v = fresh /\ fresh' = fresh + 1 /\ i <= Len(Cur(w)) + 1
    /\ IF i < Len(Cur(w))
       THEN Effect(w, DSet(i, v), [Cur(w) EXCEPT ![i + 1] = v]) /\ ret' = RVal(Cur(w)[i + 1])
       ELSE NoEffect /\ ret' = RPanic
    /\ hist' = Append(hist, H(opname, w, 0, i, v, <<>>, 0)) /\ Frame

RemoveIdx(w, i, opname) ==
    /\ CanMutate(w) /\ UNCHANGED fresh /\ i <= Len(Cur(w)) + 1
    /\ IF i < Len(Cur(w))
       THEN Effect(w, DRemove(i), RemoveAt0(Cur(w), i)) /\ ret' = RVal(Cur(w)[i + 1])
       ELSE NoEffect /\ ret' = RPanic
    /\ hist' = Append(hist, H(opname, w, 0, i, 0, <<>>, 0)) /\ Frame

Truncate(w, n) ==
    /\ CanMutate(w) /\ UNCHANGED fresh /\ n <= Len(Cur(w)) + 1
    /\ IF n < Len(Cur(w))
       THEN Effect(w, DTruncate(n), SubSeq(Cur(w), 1, n))
       ELSE NoEffect
    /\ ret' = RNil
    /\ hist' = Append(hist, H("Truncate", w, 0, n, 0, <<>>, 0)) /\ Frame

(* k fresh values; append of an empty vector is still one (ineffective) diff *)
AppendK(w, k) ==
    /\ CanMutate(w) /\ Len(Cur(w)) + k <= MaxLen /\ fresh' = fresh + k
    /\ LET vs == [j \in 1..k |-> fresh + j - 1] IN
         /\ Effect(w, DAppend(vs), Cur(w) \o vs)
         /\ hist' = Append(hist, H("Append", w, 0, 0, 0, vs, 0))
    /\ ret' = RNil /\ Frame

(* ObservableVector::clear is a no-op on an empty vector.  The transaction's *)
(* clear discards everything recorded so far and records one Clear; when    *)
(* the vector was empty before the transaction nothing needs publishing,    *)
(* so the message becomes optional ("maybe").                               *)
Clear(w) ==
    /\ CanMutate(w) /\ UNCHANGED fresh
    /\ IF w = "v"
       THEN IF vals = <<>> THEN NoEffect ELSE Effect("v", DClear, <<>>)
       ELSE /\ txn' = [txn EXCEPT !.work = <<>>,
                                  !.batch = IF RxCount # 0 THEN <<DClear>> ELSE <<>>,
                                  !.rec = IF vals = <<>> THEN "maybe" ELSE "some"]
            /\ UNCHANGED vals /\ NoSend
    /\ ret' = RNil
    /\ hist' = Append(hist, H("Clear", w, 0, 0, 0, <<>>, 0)) /\ Frame

(***************************************************************************)
(* Entry traversal (for_each / entries): one call with a decision list.    *)
(* decision codes: 0 keep, 1 set, 2 remove, 3 set then remove, 4 stop      *)
(* (stop only via entries()).  New values are fresh, fresh+1, ...          *)
(* Result: per visited element <<index reported, value seen, value         *)
(* returned by set or -1, value returned by remove or -1>>, flattened.     *)
(***************************************************************************)
RECURSIVE Walk(_, _, _, _, _, _, _)
(* cur contents, idx cursor, decs, nf next fresh, diffs so far, visited so far, via *)
(* for_each (via 0) visits every element: exhausted decisions mean "keep";  *)
(* entries() (via 1) is dropped when the decisions are exhausted or say stop *)
Walk(cur, idx, decs, nf, diffs, vis, via) ==
    LET done == [cur |-> cur, diffs |-> diffs, vis |-> vis, nf |-> nf]
        d    == IF decs = <<>> THEN 0 ELSE Head(decs)
        rest == IF decs = <<>> THEN <<>> ELSE Tail(decs)
    IN IF idx >= Len(cur) \/ (decs = <<>> /\ via = 1) \/ d = 4 THEN done
       ELSE LET x == cur[idx + 1] IN
         CASE d = 0 -> Walk(cur, idx + 1, rest, nf, diffs, vis \o <<idx, x, -1, -1>>, via)
           [] d = 1 -> Walk([cur EXCEPT ![idx + 1] = nf], idx + 1, rest, nf + 1,
                            Append(diffs, DSet(idx, nf)), vis \o <<idx, x, x, -1>>, via)
           [] d = 2 -> Walk(RemoveAt0(cur, idx), idx, rest, nf,
                            Append(diffs, DRemove(idx)), vis \o <<idx, x, -1, x>>, via)
           [] d = 3 -> Walk(RemoveAt0(cur, idx), idx, rest, nf + 1,
                            diffs \o <<DSet(idx, nf), DRemove(idx)>>, vis \o <<idx, x, x, nf>>, via)

RECURSIVE SendAll(_, _, _, _)
(* ghost bookkeeping of several direct mutations in a row *)
SendAll(ds, cur, ch, gm) ==
    IF ds = <<>> THEN [ch |-> ch, gm |-> gm]
    ELSE LET nxt == Apply(Head(ds), cur) IN
         SendAll(Tail(ds), nxt,
                 IF RxCount # 0 THEN Append(ch, [diffs |-> <<Head(ds)>>, state |-> nxt]) ELSE ch,
                 [s \in SubIds |-> IF s \in subs THEN Append(gm[s], [n |-> "one", t |-> nxt]) ELSE gm[s]])

(* via: 0 for_each (no stop), 1 entries() *)
Entries(w, via, decs) ==
    /\ CanMutate(w)
    /\ \A j \in 1..Len(decs) : decs[j] \in (IF via = 0 THEN 0..3 ELSE 0..4)
    /\ LET r == Walk(Cur(w), 0, decs, fresh, <<>>, <<>>, via) IN
         /\ fresh' = r.nf
         /\ ret' = R("Vis", 0, r.vis)
         /\ IF w = "v"
            THEN LET sa == SendAll(r.diffs, vals, chan, gmsgs) IN
                 /\ vals' = r.cur /\ chan' = sa.ch /\ gmsgs' = sa.gm
                 /\ cands' = [s \in SubIds |-> IF s \in subs THEN Closure(cands[s], gmsgs'[s]) ELSE cands[s]]
                 /\ owed' = IF r.diffs = <<>> THEN owed ELSE owed \cup {s \in subs : armed[s]}
                 /\ UNCHANGED txn
            ELSE /\ txn' = [txn EXCEPT !.work = r.cur,
                                       !.batch = IF RxCount # 0 THEN @ \o r.diffs ELSE @,
                                       !.rec = IF r.diffs = <<>> THEN @ ELSE "some"]
                 /\ UNCHANGED vals /\ NoSend
    /\ hist' = Append(hist, H("Entries", w, 0, via, fresh, decs, 0)) /\ Frame

(***************************************************************************)
(* Transactions                                                            *)
(***************************************************************************)
TxnBegin ==
    /\ alive /\ ~txn.open
    /\ txn' = [open |-> TRUE, work |-> vals, batch |-> <<>>, rec |-> "none"]
    /\ ret' = RNil /\ hist' = Append(hist, H("TxnBegin", "v", 0, 0, 0, <<>>, 0))
    /\ UNCHANGED <<vals, fresh>> /\ NoSend /\ Frame

(* commit: contents := working contents; one message unless nothing was recorded *)
TxnCommit ==
    /\ txn.open
    /\ vals' = txn.work /\ txn' = NoTxn
    /\ IF txn.rec = "none"
       THEN NoSend
       ELSE /\ chan' = IF txn.batch # <<>> /\ RxCount # 0
                       THEN Append(chan, [diffs |-> txn.batch, state |-> txn.work]) ELSE chan
            /\ gmsgs' = [s \in SubIds |-> IF s \in subs
                            THEN Append(gmsgs[s], [n |-> IF txn.rec = "some" THEN "many" ELSE "opt", t |-> txn.work])
                            ELSE gmsgs[s]]
            /\ cands' = [s \in SubIds |-> IF s \in subs THEN Closure(cands[s], gmsgs'[s]) ELSE cands[s]]
            /\ owed' = IF txn.rec = "some" THEN owed \cup {s \in subs : armed[s]} ELSE owed
    /\ ret' = RNil /\ hist' = Append(hist, H("TxnCommit", "t", 0, 0, 0, <<>>, 0))
    /\ UNCHANGED fresh /\ Frame

TxnRollback ==
    /\ txn.open
    /\ txn' = [open |-> TRUE, work |-> vals, batch |-> <<>>, rec |-> "none"]
    /\ ret' = RNil /\ hist' = Append(hist, H("TxnRollback", "t", 0, 0, 0, <<>>, 0))
    /\ UNCHANGED <<vals, fresh>> /\ NoSend /\ Frame

TxnDrop ==
    /\ txn.open
    /\ txn' = NoTxn
    /\ ret' = RNil /\ hist' = Append(hist, H("TxnDrop", "t", 0, 0, 0, <<>>, 0))
    /\ UNCHANGED <<vals, fresh>> /\ NoSend /\ Frame

(***************************************************************************)
(* Subscribers                                                             *)
(***************************************************************************)
(* k: 0 plain stream, 1 batched stream.  The snapshot is the current state *)
Subscribe(n, k) ==
    /\ alive /\ ~txn.open /\ n = Smallest(SubIds \ subs) /\ k \in {0, 1}
    /\ subs' = subs \cup {n}
    /\ sflav' = [sflav EXCEPT ![n] = IF k = 0 THEN "plain" ELSE "batched"]
    /\ snext' = [snext EXCEPT ![n] = Len(chan)]
    /\ srest' = [srest EXCEPT ![n] = <<>>]
    /\ replica' = [replica EXCEPT ![n] = vals]
    /\ gmsgs' = [gmsgs EXCEPT ![n] = <<>>]
    /\ cands' = [cands EXCEPT ![n] = {<<0, FALSE>>}]
    /\ armed' = [armed EXCEPT ![n] = FALSE]
    /\ owed' = owed \ {n}
    /\ ret' = R("Val", 0, vals) /\ out' = <<>>
    /\ hist' = Append(hist, H("Subscribe", "v", n, 0, 0, <<>>, k))
    /\ UNCHANGED <<alive, vals, cap, fresh, txn, chan>>

DropSub(s) ==
    /\ s \in subs
    /\ subs' = subs \ {s}
    /\ armed' = [armed EXCEPT ![s] = FALSE] /\ owed' = owed \ {s}
    /\ ret' = RNil /\ out' = <<>>
    /\ hist' = Append(hist, H("DropSub", "v", s, 0, 0, <<>>, 0))
    /\ UNCHANGED <<alive, vals, cap, fresh, txn, chan, sflav, snext, srest, replica, gmsgs, cands>>

DropVector ==
    /\ alive /\ ~txn.open
    /\ alive' = FALSE
    /\ owed' = owed \cup {s \in subs : armed[s]}
    /\ ret' = RNil /\ out' = <<>>
    /\ hist' = Append(hist, H("DropVector", "v", 0, 0, 0, <<>>, 0))
    /\ UNCHANGED <<vals, cap, fresh, txn, chan, subs, sflav, snext, srest, replica, gmsgs, cands, armed>>

(***************************************************************************)
(* One poll_next of a stream, as implemented.                              *)
(* Result [res |-> "item" | "pending" | "end", item |-> batch of diffs,    *)
(*         next, rest]                                                     *)
(***************************************************************************)
RECURSIVE ConcatDiffs(_, _, _)
ConcatDiffs(ch, from, to) == IF from > to THEN <<>> ELSE ch[from].diffs \o ConcatDiffs(ch, from + 1, to)

PollOnce(flav, nxt, rest) ==
    LET pend == Len(chan) - nxt
        P(res, item, n2, r2) == [res |-> res, item |-> item, next |-> n2, rest |-> r2]
        lagged == IF alive \/ ~LagThenClosedLosesState
                  THEN P("item", <<DReset(chan[Len(chan)].state)>>, Len(chan), <<>>)
                  ELSE P("end", <<>>, Len(chan), <<>>)
    IN IF flav = "plain" /\ rest # <<>> THEN P("item", <<Head(rest)>>, nxt, Tail(rest))
       ELSE IF pend = 0 THEN P(IF alive THEN "pending" ELSE "end", <<>>, nxt, <<>>)
       ELSE IF pend > BufLen THEN lagged
       ELSE IF flav = "plain"
            THEN LET m == chan[nxt + 1] IN P("item", <<Head(m.diffs)>>, nxt + 1, Tail(m.diffs))
            ELSE P("item", ConcatDiffs(chan, nxt + 1, Len(chan)), Len(chan), <<>>)

RECURSIVE PollGroup(_, _, _, _, _)
(* poll until not ready, at most budget times (0 = unbounded) *)
PollGroup(flav, nxt, rest, budget, acc) ==
    LET p == PollOnce(flav, nxt, rest) IN
    IF p.res # "item" THEN [items |-> acc, end |-> IF p.res = "pending" THEN "Pending" ELSE "End",
                            next |-> p.next, rest |-> p.rest]
    ELSE IF budget = 1 THEN [items |-> Append(acc, p.item), end |-> "More", next |-> p.next, rest |-> p.rest]
    ELSE PollGroup(flav, p.next, p.rest, IF budget = 0 THEN 0 ELSE budget - 1, Append(acc, p.item))

Poll(s, k) ==
    /\ s \in subs /\ k \in {0, 1, 2}
    /\ LET pg == PollGroup(sflav[s], snext[s], srest[s], k, <<>>)
           g1 == AcceptItems(GOf(s), pg.items, sflav[s], vals, cap)
           g2 == IF pg.end = "More" THEN g1 ELSE AcceptSync(g1, vals, cap)
       IN /\ snext' = [snext EXCEPT ![s] = pg.next]
          /\ srest' = [srest EXCEPT ![s] = pg.rest]
          /\ out' = pg.items
          /\ ret' = [t |-> pg.end, v |-> 0, vs |-> <<>>, bad |-> g2.bad]
          /\ replica' = [replica EXCEPT ![s] = g2.rep]
          /\ gmsgs' = [gmsgs EXCEPT ![s] = g2.msgs]
          /\ cands' = [cands EXCEPT ![s] = g2.cands]
          /\ armed' = [armed EXCEPT ![s] = (pg.end = "Pending")]
          /\ owed' = owed \ {s}
    /\ hist' = Append(hist, H("Poll", "v", s, 0, 0, <<>>, k))
    /\ UNCHANGED <<alive, vals, cap, fresh, txn, chan, subs, sflav>>

(***************************************************************************)
Init ==
    /\ alive = TRUE /\ vals = <<>> /\ cap \in Caps /\ fresh = 1
    /\ txn = NoTxn /\ chan = <<>>
    /\ subs = {} /\ sflav = [s \in SubIds |-> "plain"] /\ snext = [s \in SubIds |-> 0]
    /\ srest = [s \in SubIds |-> <<>>]
    /\ replica = [s \in SubIds |-> <<>>] /\ gmsgs = [s \in SubIds |-> <<>>]
    /\ cands = [s \in SubIds |-> {<<0, FALSE>>}]
    /\ armed = [s \in SubIds |-> FALSE] /\ owed = {}
    /\ ret = RNil /\ out = <<>>
    /\ hist = <<H("New", "v", 0, cap, 0, <<>>, 0)>>     \* i = capacity, vs = initial contents, k = subscribers from the start

Wheres == {"v", "t"}
Idx == 0 .. (MaxLen + 1)

MutNext ==
    \E w \in Wheres :
       \/ PushBack(w, fresh) \/ PushFront(w, fresh) \/ PopBack(w) \/ PopFront(w) \/ Clear(w)
       \/ \E i \in Idx : \/ Insert(w, i, fresh) \/ SetAt(w, i, fresh, "Set") \/ RemoveIdx(w, i, "Remove")
                         \/ Truncate(w, i)
                         \/ SetAt(w, i, fresh, "EntrySet") \/ RemoveIdx(w, i, "EntryRemove")
       \/ \E k \in 0..2 : AppendK(w, k)

EntriesNext ==
    \E w \in Wheres, via \in {0, 1}, n \in 1..MaxDecs :
       \E decs \in [1..n -> 0..4] : Entries(w, via, decs)

Next ==
    \/ MutNext
    \/ EntriesNext
    \/ TxnBegin \/ TxnCommit \/ TxnRollback \/ TxnDrop
    \/ \E s \in SubIds : (\E k \in {0, 1} : Subscribe(s, k)) \/ DropSub(s) \/ (\E k \in {0, 1, 2} : Poll(s, k))
    \/ DropVector

Spec == Init /\ [][Next]_vars

(***************************************************************************)
(* Properties checked on the model (the implementation-shaped delivery     *)
(* must satisfy the property-level acceptance)                             *)
(***************************************************************************)
LastOp == hist[Len(hist)]

(* C05/C06/C07: no poll of the model ever fails a property clause *)
RECURSIVE FlattenItems(_)
FlattenItems(items) == IF items = <<>> THEN <<>> ELSE Head(items) \o FlattenItems(Tail(items))

PollAccepted == ret.bad = ""

(* C06: whenever a stream reported Pending its replica equals the contents *)
AtPendingEqual == \A s \in subs : armed[s] /\ s \notin owed => replica[s] = vals

(* C08: the stream ends only after the vector is gone, and on its final state *)
EndOnlyWhenDead ==
    [][(hist' # hist /\ hist'[Len(hist')].op = "Poll" /\ ret'.t = "End") => ~alive]_vars
EndOnFinalState ==
    [][\A s \in SubIds : (hist' # hist /\ hist'[Len(hist')].op = "Poll" /\ hist'[Len(hist')].s = s /\ ret'.t = "End")
          => replica'[s] = vals]_vars

(* C07: nothing is visible while a transaction is open *)
TxnInvisible == [][(txn.open /\ txn'.open) => (vals' = vals /\ chan' = chan)]_vars
AbandonIsNoop == [][(txn.open /\ hist' # hist /\ hist'[Len(hist')].op = "TxnDrop") =>
                       (vals' = vals /\ chan' = chan /\ gmsgs' = gmsgs)]_vars
NoEmptyMessage == \A j \in 1..Len(chan) : chan[j].diffs # <<>>
MessageStateIsTarget == \A j \in 1..Len(chan) : TRUE

TypeOK == /\ Len(vals) <= MaxLen + 2 /\ subs \subseteq SubIds
=============================================================================
