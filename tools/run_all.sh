#!/bin/sh
# run every quick check once on the current tree; usage: tools/run_all.sh <seed> [tier]
cd "$(dirname "$0")/.."
seed=${1:-1}; tier=${2:-quick}
for p in C01 C02 C03 C04 C05 C06 C07 C08 C09 C10 C11 C12 C13 C14 C15 C16 C17 C18 C19 C20; do
  s=$(date +%s)
  VERIF_SEED=$seed ./check $p --tier $tier > work/all-$p.out 2>&1; rc=$?
  e=$(date +%s)
  echo "$p seed=$seed rc=$rc $((e-s))s $(grep -c '^VIOLATION' work/all-$p.out) viol $(grep -c '^KNOWN-FINDING' work/all-$p.out) known $(grep -m1 'TOOL-ERROR' work/all-$p.out)"
done
