"""Per-layer check pipelines.  Each pipeline is: MC (TLC on the model) -> Gen (TLC prints behaviours)
-> harness replay on the real code -> Trace validation (TLC judges the recorded trace)."""
import hashlib
import json
import zlib
import os
import time

from checklib import *  # noqa

CHECKS = {}

# =========================================================================== generic verdict
def finish(prop, tier, seed, t0, mc, nbeh, behaviours_path, val, rule, nontrivial_pred, extra_cov, assumptions,
           layer, sig_of, replay_extra=None, level="model_checking"):
    """Turn validation results into verdict + evidence.  Returns the exit code."""
    known = load_known()
    # a violation names its primary property and may name further properties whose text it also contradicts
    mine = [v for v in val["violations"] if v["prop"] == prop or prop in v.get("props", ())]
    others = [v for v in val["violations"] if not (v["prop"] == prop or prop in v.get("props", ()))]
    behs = None
    # distinct / non-trivial count, samples
    seen = set()
    nontriv = 0
    samples = []
    with open(behaviours_path) as f:
        for line in f:
            line = line.strip()
            if not line:
                continue
            hsh = hashlib.blake2b(line.encode(), digest_size=12).digest()
            if hsh in seen:
                continue
            seen.add(hsh)
            b = json.loads(line)
            if nontrivial_pred(b):
                nontriv += 1
                if len(samples) < 3:
                    samples.append(b)
    if not samples:
        with open(behaviours_path) as f:
            samples = [json.loads(f.readline())]
    rc = 0
    reported = 0
    known_hits = {}
    new = []
    for v in mine:
        sig = sig_of(v)
        k = match_known(prop, sig, known)
        if k:
            known_hits.setdefault(k["id"], [k, 0])[1] += 1
        else:
            new.append((v, sig))
    for kid, (k, cnt) in sorted(known_hits.items()):
        print("KNOWN-FINDING: property=%s %s (%s; %d runs)" % (prop, k["what"], kid, cnt), flush=True)
    if new:
        # smallest failing run first
        if behs is None:
            # only the behaviours of the violating runs are needed
            wanted = {v["run"] for v, _ in new}
            behs = {}
            with open(behaviours_path) as f:
                for i, line in enumerate(f, start=1):
                    if i in wanted:
                        behs[i] = json.loads(line)
        new.sort(key=lambda vs: len(behs.get(vs[0]["run"], [0] * (1 << 20))))
        shown = set()
        for v, sig in new:
            key = json.dumps(sig, sort_keys=True)
            if key in shown:
                continue
            shown.add(key)
            beh = behs.get(v["run"])
            payload = dict(property=prop, layer=layer, behaviour=beh, clause=v["clause"], event=v["event"],
                           signature=sig, detail=v["detail"])
            if replay_extra:
                payload.update(replay_extra)
            path = write_replay(prop, payload)
            print("VIOLATION property=%s replay=%s" % (prop, path), flush=True)
            log("  clause=%s signature=%s" % (v["clause"], key))
            reported += 1
            if reported >= 5:
                break
        rc = 1
    cov = dict(states=mc.get("distinct", 0), transitions=mc.get("generated", 0),
               traces_validated_against_impl=nbeh, samples=samples,
               evaluations=nbeh, distinct_nontrivial=nontriv, rule=rule,
               violating_runs_this_property=len(mine), violating_runs_known=sum(c for _, c in known_hits.values()),
               runs_failing_other_properties=len(others),
               trace_states=val.get("states", 0))
    cov.update(extra_cov)
    write_evidence(prop, tier, seed, level, cov, assumptions, time.time() - t0, len(new))
    return rc


# =========================================================================== obs layer (crate eyeball)
OBS_MC = dict(NV=3, OwnerIds={1, 2}, SubIds={1, 2}, WeakIds={1}, GuardIds={1, 2}, Kinds={"unique", "shared"})
OBS_TRACE = dict(NV=3, OwnerIds={1, 2, 3, 4}, SubIds={1, 2, 3, 4, 5, 6, 7, 8, 9}, WeakIds={1, 2, 3}, GuardIds={1, 2, 3},
                 Kinds={"unique", "shared"})
OBS_INVS = ["TypeOK", "ReadyIffUnseen", "ObservedLeVer", "NoLostWake", "ArmedRegisteredOrWoken",
            "ClosedIffNoOwner", "UniqueHasOneOwner", "LockExclusion"]
OBS_PROPS = ["PendingAgain", "CondSetterNoop", "AfterEndStaysEnded"]

WRITER_OPS = {"Set", "Take", "SetIfNotEq", "SetIfHashNotEq", "Update", "UpdateIf",
              "GSet", "GTake", "GSetIfNotEq", "GSetIfHashNotEq", "GUpdate", "GUpdateIf"}
POLL_OPS = {"Poll", "PollNext", "PollNextRef"}
READ_OPS = POLL_OPS | {"NextNow", "NextRefNow", "SubGet", "SubRead", "Get", "GuardGet", "Read"}
HANDLE_OPS = {"CloneOwner", "DropOwner", "IntoShared", "Downgrade", "CloneWeak", "DropWeak", "Upgrade",
              "Subscribe", "SubscribeReset", "CloneSub", "CloneReset", "DropSub"}


def obs_nontrivial(prop):
    def c01(b):
        ops = [o["op"] for o in b]
        w = [i for i, o in enumerate(ops) if o in WRITER_OPS]
        return bool(w) and any(o in READ_OPS for o in ops[w[0] + 1:])

    def c02(b):
        ops = [o["op"] for o in b]
        p = [i for i, o in enumerate(ops) if o in POLL_OPS]
        return bool(p) and any(o in WRITER_OPS or o == "DropOwner" for o in ops[p[0] + 1:])

    def c03(b):
        return any(o["op"] in ("DropOwner", "Upgrade", "IntoShared") for o in b)

    def c19(b):
        return sum(1 for o in b if o["op"] in HANDLE_OPS) >= 2

    def c04(b):
        return any(o["op"] in ("TryRead", "TryWrite", "Read", "Write") for o in b)
    return dict(C01=c01, C02=c02, C03=c03, C19=c19, C04=c04, C16=c01)[prop]


OBS_RULES = dict(
    C01="behaviours are generated by TLC from Obs.tla (one per transition of the reachable state graph, the complete "
        "tree to a small depth, random walks); distinct = distinct operation sequences; non-trivial = a writer call "
        "followed by a call that hands out a value or polls",
    C02="same generation; non-trivial = a poll followed later by a notifying update or an owner drop",
    C03="generation restricted to handle/owner operations (Obs!NextHandles) plus the general set; non-trivial = "
        "contains DropOwner, Upgrade or IntoShared",
    C19="generation restricted to handle operations; non-trivial = at least two handle-creating/-dropping calls",
)


def obs_sig(v):
    d = v["detail"]
    return dict(layer="obs", clause=v["clause"], op=d.get("op"), kind=d.get("kind"),
                expected=(d.get("expected") or {}).get("t"), got=(d.get("got") or {}).get("t"))


def spread(beh, lo, hi=None):
    """Spread the (expensive to validate) behaviours in lines [lo, hi) -- or in every range of the list `lo` -- evenly over the
    file, so that the parallel validator chunks get equal work.  Done before the harness runs: run ids are line numbers."""
    ranges = [(lo, hi)] if hi is not None else list(lo)
    lines = open(beh).read().splitlines()
    pick = set()
    for a, b in ranges:
        pick.update(range(a, min(b, len(lines))))
    heavy = [l for i, l in enumerate(lines) if i in pick]
    rest = [l for i, l in enumerate(lines) if i not in pick]
    if not heavy or not rest:
        return
    step = len(rest) / float(len(heavy))
    out, j = [], 0
    for i, h in enumerate(heavy):
        k = int(round((i + 1) * step))
        out.extend(rest[j:k])
        out.append(h)
        j = k
    out.extend(rest[j:])
    with open(beh, "w") as f:
        f.write("\n".join(out) + "\n")


def driver_policy(beh, mod):
    """vec / adapters layers: field v of the first record (`New`) carries the driver policy (bit 0: a subscriber / pipe is always
    polled with the same waker instead of a fresh one per poll; bits 1, 2 (vec): how the vector and its initial contents are
    created); the policy is a hash of the behaviour (not its position: TLC's output order varies), and a replay file fixes
    the policy it failed under."""
    tmp = beh + ".tmp"
    with open(beh) as f, open(tmp, "w") as o:
        for i, line in enumerate(f):
            line = line.strip()
            if not line:
                continue
            b = json.loads(line)
            if isinstance(b, list) and b and isinstance(b[0], dict) and b[0].get("op") == "New":
                b[0]["v"] = zlib.crc32(line.encode()) % mod
                line = json.dumps(b, separators=(",", ":"))
            o.write(line + "\n")
    os.replace(tmp, beh)


def waker_policy(beh, both=None, one_stage=None):
    """The first record of an obs behaviour (`New`) carries the driver's waker policy in its spare field n: 0 = every poll
    uses a fresh waker, 1 = a subscriber is always polled with the same waker (what an executor does; exercises
    `will_wake`-style shortcuts).  Alternate by line; lines [both[0], both[1]) (complete trees) are run under both.
    Returns the new number of behaviours."""
    tmp = beh + ".tmp"
    n = 0
    lo, hi = both if both else (0, 0)
    with open(beh) as f, open(tmp, "w") as o:
        for i, line in enumerate(f):
            line = line.strip()
            if not line:
                continue
            b = json.loads(line)
            pols = (0, 1) if lo <= i < hi else (zlib.crc32(line.encode()) % 2,)
            b[0]["two"] = 0 if one_stage and any(lo2 <= i < hi2 for lo2, hi2 in one_stage) else 1
            for pol in pols:
                b[0]["n"] = pol
                o.write(json.dumps(b, separators=(",", ":")) + "\n")
                n += 1
    os.replace(tmp, beh)
    return n


def obs_pipeline(prop, tier, seed, work, t0, flavor="sync"):
    quick = tier == "quick"
    handles = prop in ("C03", "C19")
    # ---- 1. design level: exhaustive TLC run on Obs.tla
    cfg = os.path.join(work, "MCObs.cfg")
    write_cfg(cfg, spec="Spec", constants=dict(OBS_MC, MaxOps=6 if quick else 8), view="View",
              constraints=["Bound"], invariants=OBS_INVS, properties=OBS_PROPS)
    mc = tlc("MCObs", cfg, work, workers=8, timeout=1500, tag="mc")
    if not tlc_ok(mc, "MCObs"):
        log(mc["out"][-5000:])
        raise ToolError("MCObs: the model violates its invariants (model error, not a verdict on the code)")
    log("MC: %d distinct states, %d transitions, %.1fs" % (mc["distinct"], mc["generated"], mc["wall"]))
    proof = None
    if not quick and prop in ("C01", "C02", "C03"):
        # unbounded part: the invariants behind C01-C03 are inductive for Obs!Spec (any id sets, any depth)
        proof = tlaps("ObsProofs", work)
        if not proof["ok"]:
            log(proof["out"][-4000:])
            raise ToolError("ObsProofs: tlapm could not prove the inductive invariant of Obs.tla (%d/%d): specification error" %
                            (proof["proved"], proof["total"]))
        log("TLAPS: %d obligations proved in %.1fs" % (proof["proved"], proof["wall"]))
    # ---- 2. spec -> impl: behaviours
    beh = os.path.join(work, "beh.ndjson")
    n = 0
    spec = "SpecHandles" if handles else "Spec"
    wake_range = None
    gconst = dict(OBS_MC, Depth=5 if quick else 6)
    if handles:
        gconst.update(OwnerIds={1, 2, 3}, WeakIds={1, 2}, GuardIds={1})
    c = os.path.join(work, "GenEdge.cfg")
    write_cfg(c, spec=spec, constants=gconst, view="View", constraints=["Bound"], action_constraints=["Edge"])
    k, _ = gen_behaviours("GenObs", c, work, beh, "edge", tag="edge")
    n += k
    log("gen edge: %d" % k)
    c = os.path.join(work, "GenTree.cfg")
    # the full-alphabet tree grows by a factor of ~50 per level: depth 4 (3.5 M behaviours) only in C01's thorough tier
    tconst = dict(OBS_MC, Depth=(4 if handles else 3) if quick else (5 if handles else 4 if prop == "C01" else 3), GuardIds={1})
    if not handles and quick:
        tconst.update(Kinds={"shared" if seed % 2 else "unique"})
    write_cfg(c, spec=spec, constants=tconst, constraints=["BoundTree"], invariants=["PrintAtDepth"])
    k, _ = gen_behaviours("GenObs", c, work, beh, "tree", tag="tree", workers=12, timeout=1500)
    n += k
    log("gen tree: %d" % k)
    if prop in ("C01", "C02"):
        # complete tree over the wake / readiness core (all paths: clone vs subscribe, reset, re-poll ...)
        c = os.path.join(work, "GenWake.cfg")
        write_cfg(c, spec="SpecWakeSub", constants=dict(OBS_MC, NV=2, Depth=6 if quick else 7, Kinds={"shared"} if seed % 2 else {"unique"}),
                  constraints=["BoundTree"], invariants=["PrintAtDepth"])
        k, _ = gen_behaviours("GenObs", c, work, beh, "tree", tag="wake", workers=12, timeout=1500)
        wake_range = (n, n + k)
        n += k
        log("gen wake tree: %d" % k)
    c = os.path.join(work, "GenSim.cfg")
    write_cfg(c, spec=spec, constants=dict(NV=3, OwnerIds={1, 2, 3}, SubIds={1, 2, 3, 4}, WeakIds={1, 2},
                                           GuardIds={1, 2}, Kinds={"unique", "shared"}, Depth=40),
              constraints=["BoundTree"], invariants=["PrintAtDepth"])
    k, _ = gen_behaviours("GenObs", c, work, beh, "sim", num=600 if quick else 20000, depth=41, seed=seed, tag="sim",
                          timeout=1500)
    n += k
    log("gen sim: %d" % k)
    if prop in ("C01", "C02"):
        # many subscribers pending at once (a waker list may change representation beyond a few entries): walks over the wake core
        c = os.path.join(work, "GenMany.cfg")
        write_cfg(c, spec="SpecWake", constants=dict(NV=2, OwnerIds={1}, SubIds=set(range(1, 10)), WeakIds={1}, GuardIds={1},
                                                     Kinds={"unique", "shared"}, Depth=45),
                  constraints=["BoundTree"], invariants=["PrintAtDepth"])
        k, _ = gen_behaviours("GenObs", c, work, beh, "sim", num=40 if quick else 2000, depth=46, seed=seed + 3, tag="many", timeout=1500)
        n += k
        log("gen many-subscriber walks: %d" % k)
    n = waker_policy(beh, wake_range if prop == "C02" else None)
    # ---- 3. run on the real code
    trace = os.path.join(work, "trace.ndjson")
    hrc = run_harness(["obs-replay" if flavor == "sync" else "obs-async-replay", beh, trace, "--nv", "3"])
    # ---- 4. impl -> spec: TLC judges the trace
    c = os.path.join(work, "TraceObs.cfg")
    write_cfg(c, spec="TraceSpec", constants=dict(OBS_TRACE, Flavor=flavor), postcondition="TraceAccepted")
    val = validate("TraceObs", c, trace, work)
    st = val["stats"]
    extra = dict(trace_events=st[0] if st else 0, calls_followed=st[2] if len(st) > 2 else 0,
                 exercised=dict(C02_owed_wake=st[3], C03_after_end=st[4], C01_ready_polls=st[5], C19_counts=st[6]) if len(st) > 6 else {},
                 harness_hang=(hrc == 3),
                 mc_config="Obs.tla, NV=3, 2 owners, 2 subscribers, 1 weak, 2 guards, <= %d operations" % (5 if quick else 7),
                 exhaustive=False)
    if proof:
        extra["tlaps"] = dict(module="ObsProofs.tla", obligations_proved=proof["proved"], wall_s=round(proof["wall"], 1),
                              theorem="Spec => [](ReadyIffUnseen /\\ ObservedLeVer /\\ NoLostWake /\\ ArmedRegisteredOrWoken /\\ ClosedIffNoOwner) "
                                      "for any NV, id sets and history length")
    if prop == "C19" and flavor == "sync":
        # "for both lock flavours": the same handle histories on the async-lock flavour
        trace2 = os.path.join(work, "trace-async.ndjson")
        run_harness(["obs-async-replay", beh, trace2, "--nv", "3"])
        c2 = os.path.join(work, "TraceObsAsync.cfg")
        write_cfg(c2, spec="TraceSpec", constants=OBSA_TRACE, postcondition="TraceAccepted")
        val2 = validate("TraceObsAsync", c2, trace2, work)
        for v in val2["violations"]:
            v["detail"]["kind"] = str(v["detail"].get("kind")) + "/async"
        val["violations"] += [v for v in val2["violations"] if v["prop"] == "C19"]
        val["states"] = val.get("states", 0) + val2["states"]
        st2 = val2["stats"] + [0] * 8
        extra["async_flavour"] = dict(calls_followed=st2[2], counts_checked=st2[6])
        os.remove(trace2)
    nontriv = obs_nontrivial(prop)
    sig = obs_sig
    assumptions = ["the harness executes each call faithfully and logs its result (no oracle in the harness)",
                   "TLC's evaluation of Obs.tla / TraceObs.tla; bounded constants for the exhaustive part",
                   "single-threaded driver: calls that would block forever are not issued"]
    if prop in ("C02", "C03") and flavor == "sync":
        # thread part: forced schedules from ObsConc.tla + free-running programs, judged by TraceLin.tla
        lc = lin_collect(prop, tier, seed, work, beh, n)
        val["violations"] += lc["violations"]
        val["states"] = val.get("states", 0) + lc["states"]
        n += lc["n"]
        mc = dict(distinct=mc["distinct"] + lc["mc_states"], generated=mc["generated"] + lc["mc_trans"])
        extra.update(concurrent=dict(histories_judged=lc["runs"], forced_schedules=lc["nsched"], free_running_programs=lc["nfree"],
                                     race_programs=lc["nrace"], runs_per_race_program=lc["race_reps"],
                                     history_events=lc["events"], harness_hang=lc["hang"],
                                     mc_config="ObsConc.tla, 3 threads, all interleavings at pause-point granularity"))
        single = nontriv

        def nontriv(b):
            if isinstance(b, dict):
                return True
            if b and b[0].get("op") == "New" and any(o.get("op") == "Go" for o in b):
                return True
            return single(b)

        def sig(v):
            return lin_sig(v) if isinstance(v["detail"], dict) and "rejected" in v["detail"] else obs_sig(v)
        assumptions += ["thread part: free-running threads sample OS schedules; forced schedules are exact only at the instrumented pause points"]
    return finish(prop, tier, seed, t0, mc, n, beh, val, OBS_RULES.get(prop, OBS_RULES["C01"]), nontriv, extra,
                  assumptions, "obs", sig, replay_extra=dict(flavor=flavor))


for _p in ("C01", "C02", "C03", "C19"):
    CHECKS[_p] = obs_pipeline


# =========================================================================== replay of a stored violation
def replay(prop, path, work):
    payload = json.load(open(path))
    layer = payload.get("layer")
    beh = os.path.join(work, "beh.ndjson")
    with open(beh, "w") as f:
        f.write(json.dumps(payload["behaviour"]) + "\n")
    trace = os.path.join(work, "trace.ndjson")
    if layer == "obs" and (isinstance(payload["behaviour"], dict) or any(o.get("op") == "Go" for o in payload["behaviour"])):
        layer = "lin"
    if layer == "obs":
        flavor = payload.get("flavor", "sync")
        run_harness(["obs-replay" if flavor == "sync" else "obs-async-replay", beh, trace, "--nv", "3"])
        c = os.path.join(work, "TraceObs.cfg")
        if flavor == "async":
            write_cfg(c, spec="TraceSpec", constants=OBSA_TRACE, postcondition="TraceAccepted")
            val = validate("TraceObsAsync", c, trace, work, nchunks=1)
            for v in val["violations"]:
                v["prop"] = "C16"
        else:
            write_cfg(c, spec="TraceSpec", constants=dict(OBS_TRACE, Flavor=flavor), postcondition="TraceAccepted")
            val = validate("TraceObs", c, trace, work, nchunks=1)
    elif layer == "vec":
        run_harness(["vec-replay", beh, trace])
        val = vec_validate(trace, work)
    elif layer == "adapters" and isinstance(payload["behaviour"], dict) and "kind" in payload["behaviour"]:
        # a one-step case of the AdapterAlgo conformance run
        run_harness(["algo", beh, trace])
        if str(payload["behaviour"]["kind"]).startswith("sort"):
            c = os.path.join(work, "TraceSortAlgo.cfg")
            write_cfg(c, spec="TraceSpec", constants={}, postcondition="TraceAccepted")
            val = validate("TraceSortAlgo", c, trace, work, nchunks=1)
        else:
            c = os.path.join(work, "TraceAlgo.cfg")
            write_cfg(c, spec="TraceSpec", constants=dict(TailLimitDecreaseUsesOldLimit=True), postcondition="TraceAccepted")
            val = validate("TraceAlgo", c, trace, work, nchunks=1)
    elif layer == "adapters":
        run_harness(["adapters-replay", beh, trace])
        val = ad_validate(trace, work)
    elif layer == "vecops":
        run_harness(["vecops", beh, trace])
        c = os.path.join(work, "TraceVecOps.cfg")
        write_cfg(c, spec="TraceSpec", postcondition="TraceAccepted")
        val = validate("TraceVecOps", c, trace, work, nchunks=1)
    elif layer == "lin":
        with open(beh, "w") as f:
            f.write(json.dumps(payload["behaviour"]) + "\n")
        run_harness(["threads", beh, trace, "--repeat", "20"])
        r = validate_lin(trace, work)
        print(open(trace).read()[:6000])
        for v in r["violations"]:
            print("history rejected: property=%s clause=%s run=%d rejected=%s" % (v["prop"], v["clause"], v["run"], json.dumps(v["detail"]["rejected"])))
        if any(v["prop"] == prop for v in r["violations"]):
            print("VIOLATION property=%s replay=%s" % (prop, path))
            return 1
        print("replay: property %s held on 20 executions of this program (forced schedule if one is stored)" % prop)
        return 0
    elif layer == "tokens":
        sub = payload.get("signature", {}).get("layer", "vec")
        cmd = {"obs": ["obs-replay", beh, trace, "--nv", "3", "--track"], "vec": ["vec-replay", beh, trace, "--track"],
               "adapters": ["adapters-replay", beh, trace, "--track"]}[sub]
        run_harness(cmd)
        c = os.path.join(work, "TraceTokens.cfg")
        write_cfg(c, spec="TraceSpec", postcondition="TraceAccepted")
        val = validate("TraceTokens", c, trace, work, nchunks=1)
    else:
        raise ToolError("cannot replay layer %r" % layer)
    print(open(trace).read())
    mine = [v for v in val["violations"] if v["prop"] == prop or prop in v.get("props", ())]
    for v in val["violations"]:
        print("clause failed: property=%s clause=%s event=%d detail=%s" % (v["prop"], v["clause"], v["event"], json.dumps(v["detail"])))
    # the same matching against the committed known findings as in a full run
    sig_of = {"adapters": ad_sig}.get(layer)
    if mine and sig_of:
        known = load_known()
        rest = []
        for v in mine:
            k = match_known(prop, sig_of(v), known)
            if k:
                print("KNOWN-FINDING: property=%s %s (%s)" % (prop, k["what"], k["id"]))
            else:
                rest.append(v)
        mine = rest
        if not mine:
            return 0
    if mine:
        print("VIOLATION property=%s replay=%s" % (prop, path))
        return 1
    print("replay: property %s held on this behaviour" % prop)
    return 0


# =========================================================================== vec layer (crate eyeball-im)
VEC_TRACE = dict(MaxDecs=4, SubIds={1, 2, 3, 4}, Caps={1}, MaxLen=1000, LagThenClosedLosesState=False)
VEC_INVS = ["TypeOK", "PollAccepted", "AtPendingEqual", "NoEmptyMessage"]
VEC_PROPS = ["EndOnlyWhenDead", "EndOnFinalState", "TxnInvisible", "AbandonIsNoop"]
MUT_OPS = {"PushBack", "PushFront", "PopBack", "PopFront", "Insert", "Set", "Remove", "Truncate", "Clear", "Append",
           "EntrySet", "EntryRemove", "Entries"}


def vec_nontrivial(prop):
    def polls_after_mut(b):
        ops = [o["op"] for o in b]
        if b[0].get("k", 0) > 0:
            i = 0
        elif "Subscribe" in ops:
            i = ops.index("Subscribe")
        else:
            return False
        m = [j for j in range(i + 1, len(ops)) if ops[j] in MUT_OPS or ops[j] == "TxnCommit"]
        return bool(m) and "Poll" in ops[m[0] + 1:]

    def c06(b):
        # more messages than the capacity between subscribe and a poll
        cap = b[0]["i"]
        cnt = {s: 0 for s in range(1, b[0].get("k", 0) + 1)}
        for o in b[1:]:
            if o["op"] == "Subscribe":
                cnt[o["s"]] = 0
            elif (o["op"] in MUT_OPS and o["t"] == "v") or o["op"] == "TxnCommit":
                for s in cnt:
                    cnt[s] += 1
            elif o["op"] == "Poll" and o["s"] in cnt:
                if cnt[o["s"]] > cap:
                    return True
                cnt[o["s"]] = 0
        return False

    def c07(b):
        ops = [o["op"] for o in b]
        return "TxnBegin" in ops and any(o["t"] == "t" and o["op"] in MUT_OPS for o in b)

    def c08(b):
        ops = [o["op"] for o in b]
        return "DropVector" in ops and "Poll" in ops[ops.index("DropVector"):] and ("Subscribe" in ops or b[0].get("k", 0) > 0)

    def c17(b):
        return sum(1 for o in b if o["op"] in MUT_OPS) >= 2
    return dict(C05=polls_after_mut, C06=c06, C07=c07, C08=c08, C17=c17, C14=polls_after_mut)[prop]


VEC_RULES = dict(
    C05="behaviours generated by TLC from Vec.tla (transition cover, random walks) with a capacity that excludes lag; "
        "non-trivial = a subscriber is polled after at least one mutation that followed its subscription",
    C06="capacities 1,2,3 (and 5,16 in walks); non-trivial = some subscriber had more messages pending than the capacity when polled",
    C07="transaction-focused generation (Vec!NextTxn); non-trivial = a transaction containing at least one mutator call",
    C08="stream-focused generation with DropVector; non-trivial = a subscriber is polled after the vector was dropped",
    C17="mutator-focused generation incl. out-of-range indices and entry traversals; non-trivial = at least two mutator calls",
)


def vec_sig(v):
    d = v["detail"]
    if d.get("op") == "Poll":
        lagp = len(d.get("msgs", [])) > d.get("cap", 0)
        return dict(layer="vec", clause=v["clause"], op="Poll", flav=d.get("flav"), end=d.get("end"),
                    lag_possible=lagp, alive=d.get("alive"))
    return dict(layer="vec", clause=v["clause"], op=d.get("op"), t=d.get("t"),
                expected=(d.get("expected") or {}).get("t"), got=(d.get("got") or {}).get("t"))


def vec_validate(trace, work):
    c = os.path.join(work, "TraceVec.cfg")
    write_cfg(c, spec="TraceSpec", constants=VEC_TRACE, postcondition="TraceAccepted")
    val = validate("TraceVec", c, trace, work)
    for v in val["violations"]:
        d = v["detail"]
        if d.get("op") != "Poll":
            continue
        # One observation can contradict the text of several properties; the trace specification names the most specific one,
        # the others are added here (a violation is reported under every property whose text it contradicts):
        #  C05 "replaying a subscriber's diffs reproduces each vector state; both stream flavours deliver the same diffs"
        #  C06 "... whenever the stream reports Pending the replica equals the vector; no delivered diff is ever inapplicable;
        #       each item of the batched stream brings its subscriber fully up to date"
        #  C07 "commit publishes the changes as one unit: applied to the pre-transaction state they yield the post-transaction
        #       state ... a batched subscriber never observes a state in between"
        lag = len(d.get("msgs", [])) > d.get("cap", 0)
        many = any(m.get("n") != "one" for m in d.get("msgs", []))
        props = {v["prop"]}
        cl = v["clause"]
        if cl in ("inapplicable", "not-up-to-date-at-pending", "batch-not-up-to-date"):
            props.add("C06")
            if not lag:
                props.add("C05")
        if cl in ("unexplained-diff", "diffs-missing") and not lag:
            props.add("C05")
        #  C08 "after the vector is dropped the stream delivers what is still pending and then ends, and at that point the
        #       replica equals the vector's final contents, whether or not the subscriber had fallen behind": a poll after
        #       the drop that ends the stream on a Reset which does not carry the final contents (seed AA02)
        if cl == "reset-not-current" and d.get("alive") is False and d.get("end") == "End":
            groups = [g for g in d.get("items", []) if g]
            last = groups[-1][-1] if groups else None
            if isinstance(last, dict) and last.get("k") == "Reset" and last.get("vs") != d.get("vals"):
                props.add("C08")
        if cl == "runaway":          # the poll panicked (or never settled): nothing can be replayed from this stream
            props.add("C05")
            if many and not lag:
                props.add("C07")
        if many and not lag and cl in ("inapplicable", "unexplained-diff", "diffs-missing", "batch-not-up-to-date", "not-up-to-date-at-pending"):
            props.add("C07")
        v["props"] = tuple(sorted(props))
    return val


def vec_pipeline(prop, tier, seed, work, t0):
    quick = tier == "quick"
    # ---- 1. design level
    cfg = os.path.join(work, "MCVec.cfg")
    write_cfg(cfg, spec="Spec", constants=dict(MaxDecs=2 if quick else 2, SubIds={1, 2}, Caps={1, 2}, MaxLen=2,
                                               LagThenClosedLosesState=False, MaxOps=5 if quick else 6),
              view="View", constraints=["Bound"], invariants=VEC_INVS, properties=VEC_PROPS)
    mc = tlc("MCVec", cfg, work, workers=8, timeout=3000, tag="mc")
    if not tlc_ok(mc, "MCVec"):
        log(mc["out"][-5000:])
        raise ToolError("MCVec: the model violates its invariants (model error)")
    log("MC: %d distinct states, %d transitions, %.1fs" % (mc["distinct"], mc["generated"], mc["wall"]))
    # ---- 2. generation
    beh = os.path.join(work, "beh.ndjson")
    n = 0
    base = dict(MaxDecs=2, SubIds={1, 2}, MaxLen=2, LagThenClosedLosesState=False, InitLens={0}, PreSubs={0})
    pre = dict(InitLens={2}, PreSubs={2}, MaxLen=4)
    # (spec, constants, mode): "edge" = one behaviour per transition of the reachable graph (shortest prefix),
    # "tree" = every path of exactly Depth operations (path-dependent implementation state needs this)
    plans = dict(
        C05=[("SpecStreams", dict(Caps={16}, Depth=5 if quick else 6), "edge"), ("SpecTxn", dict(Caps={16}, Depth=5, SubIds={1}), "edge"),
             ("SpecStreamsPre", dict(pre, Caps={16}, Depth=4 if quick else 5, InitLens={3}), "edge"),
             ("SpecTxnCore", dict(pre, Caps={16}, Depth=7 if quick else 8), "edge"),
             ("SpecTxnCore", dict(pre, Caps={16}, Depth=6 if quick else 7, PreSubs={1}), "tree"),
             ("SpecTxnSmall", dict(pre, Caps={16}, Depth=6 if quick else 7), "edge")],
        C06=[("SpecStreams", dict(Caps={1, 2}, Depth=5 if quick else 6, MaxLen=2), "edge"),
             ("SpecTxn", dict(Caps={1}, Depth=6 if quick else 7, SubIds={1}, MaxLen=1), "edge"),
             ("SpecStreamsPre", dict(pre, Caps={1, 2}, Depth=4 if quick else 5), "edge"),
             ("SpecTxnCore", dict(pre, Caps={1}, Depth=7 if quick else 8, InitLens={1}), "edge"),
             ("SpecLag", dict(pre, Caps={1}, Depth=6 if quick else 7, InitLens={1}, PreSubs={2}), "tree"),
             ("SpecLag", dict(pre, Caps={2}, Depth=5 if quick else 6, InitLens={1}, PreSubs={2}), "tree"),
             ("SpecLagDeep", dict(pre, Caps={3, 5}, Depth=7 if quick else 8, InitLens={1}, PreSubs={1}, MaxLen=12), "tree"),
             # every path through a small transaction body (not only one per model transition: the code keeps its own
             # record of the batch), then commit and poll: "Pending means up to date" after a commit (seed AB03)
             ("SpecTxnCore", dict(pre, Caps={1}, Depth=5 if quick else 6, InitLens={1}, PreSubs={1}), "tree")],
        C07=[("SpecTxn", dict(Caps={1, 16}, Depth=5 if quick else 6, SubIds={1}), "edge"),
             ("SpecTxnSmall", dict(pre, Caps={16}, Depth=6 if quick else 7), "edge"),
             ("SpecTxnCore", dict(pre, Caps={16}, Depth=8 if quick else 9), "edge"),
             ("SpecTxnCore", dict(pre, Caps={1}, Depth=7 if quick else 8, InitLens={1}), "edge"),
             ("SpecTxnCore", dict(pre, Caps={16}, Depth=6 if quick else 7, PreSubs={2}), "tree"),
             ("SpecTxnSubs", dict(pre, Caps={16}, Depth=5 if quick else 6, InitLens={1}, PreSubs={1, 2}), "tree")],
        C08=[("SpecStreams", dict(Caps={1, 2}, Depth=6 if quick else 7, SubIds={1}, MaxLen=2), "edge"),
             ("SpecStreamsPre", dict(pre, Caps={1, 2}, Depth=4 if quick else 5), "edge"),
             ("SpecEnd", dict(pre, Caps={1, 2, 8}, Depth=6 if quick else 7, InitLens={1}, PreSubs={2}, MaxLen=6), "tree"),
             ("SpecLag", dict(pre, Caps={1, 2} if quick else {2, 8}, Depth=4 if quick else 6, InitLens={1}, PreSubs={2}), "tree"),
             # deep enough for "behind by more than the capacity, newest message a commit, drop, poll" (seed AA02)
             ("SpecLag", dict(pre, Caps={1}, Depth=6 if quick else 7, InitLens={1}, PreSubs={2}), "tree"),
             ("SpecTxnSubs", dict(pre, Caps={2}, Depth=5 if quick else 6, InitLens={1}, PreSubs={1, 2}), "tree")],
        C17=[("SpecMut", dict(Caps={16}, Depth=4 if quick else 5, MaxLen=3, SubIds={1}), "edge")],
    )
    for j, (spec, over, mode) in enumerate(plans[prop]):
        c = os.path.join(work, "Gen%s%d.cfg" % (mode, j))
        if mode == "edge":
            write_cfg(c, spec=spec, constants=dict(base, **over), view="View", constraints=["Bound"], action_constraints=["Edge"])
        else:
            write_cfg(c, spec=spec, constants=dict(base, **over), constraints=["BoundTree"], invariants=["PrintAtDepth"])
        k, _ = gen_behaviours("GenVec", c, work, beh, mode, tag="%s%d" % (mode, j), workers=12, timeout=3000)
        n += k
        log("gen %s %s: %d" % (mode, spec, k))
    simspec = dict(C05="SpecAll", C06="SpecAll", C07="SpecTxn", C08="SpecAll", C17="SpecMut")[prop]
    simcaps = dict(C05={16, 64}, C06={1, 2, 3, 5}, C07={1, 3, 16}, C08={1, 2, 3, 16}, C17={16})[prop]
    c = os.path.join(work, "GenSim.cfg")
    write_cfg(c, spec=simspec, constants=dict(MaxDecs=3, SubIds={1, 2, 3}, Caps=simcaps, MaxLen=6,
                                              LagThenClosedLosesState=False, Depth=50, InitLens={0}, PreSubs={0}),
              constraints=["BoundTree"], invariants=["PrintAtDepth"])
    k, _ = gen_behaviours("GenVec", c, work, beh, "sim", num=400 if quick else 20000, depth=51, seed=seed, tag="sim",
                          timeout=3000)
    n += k
    log("gen sim: %d" % k)
    # long vectors (imbl's representation changes at 64 items): walks from 66 / 130 initial items with appends of 40 / 70
    c = os.path.join(work, "GenBig.cfg")
    write_cfg(c, spec="SpecBig", constants=dict(MaxDecs=2, SubIds={1, 2}, Caps=simcaps, MaxLen=400, LagThenClosedLosesState=False,
                                                Depth=25, InitLens={66, 130}, PreSubs={2}),
              constraints=["BoundTree"], invariants=["PrintAtDepth"])
    k, _ = gen_behaviours("GenVec", c, work, beh, "sim", num=40 if quick else 1500, depth=26, seed=seed + 7, tag="big", timeout=3000)
    spread(beh, n, n + k)
    n += k
    log("gen big: %d" % k)
    # long transactions (>= 17 recorded diffs) and long backlogs (45 unpolled operations, capacities that do / do not lag)
    for j, (spec_, consts_, depth_, num_) in enumerate([
            ("SpecTxnLong", dict(Caps={16}, InitLens={0, 2}, PreSubs={2}, MaxLen=40), 32, 25 if quick else 1500),
            ("SpecBacklog", dict(Caps={2, 16, 64}, InitLens={1}, PreSubs={2}, MaxLen=60), 52, 25 if quick else 1500)]):
        c = os.path.join(work, "GenLong%d.cfg" % j)
        write_cfg(c, spec=spec_, constants=dict(dict(MaxDecs=2, SubIds={1, 2}, LagThenClosedLosesState=False, Depth=depth_), **consts_),
                  constraints=["BoundTree"], invariants=["PrintAtDepth"])
        k, _ = gen_behaviours("GenVec", c, work, beh, "sim", num=num_, depth=depth_ + 1, seed=seed + 11 + j, tag="long%d" % j, timeout=3000)
        spread(beh, n, n + k)
        n += k
        log("gen %s: %d" % (spec_, k))
    driver_policy(beh, 8)
    # ---- 3. real code
    trace = os.path.join(work, "trace.ndjson")
    hrc = run_harness(["vec-replay", beh, trace])
    # ---- 4. judge
    val = vec_validate(trace, work)
    st = val["stats"] + [0] * 10
    extra = dict(trace_events=st[0], calls_followed=st[2],
                 exercised=dict(polls_with_items=st[3], lag_resets_seen=st[4], commits_with_changes=st[5],
                                stream_ends_seen=st[6], owed_wakeups_checked=st[7], expected_panics=st[9]),
                 drift_polls_differing_from_model_prediction=st[8], harness_hang=(hrc == 3),
                 mc_config="Vec.tla, 2 subscribers, capacities {1,2}, vectors <= 2, <= %d operations" % (4 if quick else 5),
                 exhaustive=False)
    return finish(prop, tier, seed, t0, mc, n, beh, val, VEC_RULES[prop], vec_nontrivial(prop), extra,
                  ["the harness executes each call faithfully and logs results, contents and delivered diffs verbatim",
                   "TLC's evaluation of Vec.tla / TraceVec.tla; bounded constants for the exhaustive part",
                   "tokio's broadcast channel behaves as read from its source (buffer rounded up to a power of two); "
                   "this only affects the DRIFT counter, never the verdict"],
                  "vec", vec_sig)


for _p in ("C05", "C06", "C07", "C08", "C17"):
    CHECKS[_p] = vec_pipeline


# =========================================================================== adapters layer (crate eyeball-im-util)
AD_TRACE = dict(MaxDecs=4, SubIds={1, 2, 3}, Caps={1}, MaxLen=1000, LagThenClosedLosesState=False)
ALL_KINDS = {"head", "tail", "skip", "filter", "filter_map", "sort", "sort_by", "sort_by_key"}
LIMIT_KINDS = {"head", "tail", "skip"}


def ad_base(**over):
    d = dict(MaxDecs=1, SubIds={1, 2}, Caps={16}, MaxLen=3, LagThenClosedLosesState=False, Depth=4,
             InitLens={0, 2}, StageKinds=LIMIT_KINDS, Modes={"static", "dyn", "dyninit"}, Params={0, 1, 2, 3},
             NStages={1}, PipeFlavs={"plain"}, SelfObs={0}, CoreSet="lean")
    d.update(over)
    return d


def ad_plans(prop, quick):
    """(spec, mode, constants, num) generation plans per property; sizes measured with tools/plan_sizes.py.
    mode: "edge" one behaviour per transition (shortest prefix); "tree" every path of exactly Depth operations
    (needed because adapters keep internal state the generator does not model); "sim" random walks."""
    # the exhaustive plans (edge / tree) are the same in both tiers: one level deeper is 2-6 million behaviours per plan
    # (measured with tools/plan_sizes.py); the thorough tier adds random walks and long-vector walks instead
    D = 4
    both = {"plain", "batched"}
    sim_n = lambda q, t: max(q // 3, 50) if quick else t // 2
    dyn2 = dict(Modes={"dyninit"}, Params={1, 2}, InitLens={3}, MaxLen=5)
    def big(kinds, **over):
        # long vectors (imbl's representation changes at 64 items): walks from 66 / 130 initial items, appends of 40 / 70,
        # mutators at representative indices, limits around the boundary
        return ("GSpecBig", "sim", ad_base(**dict(dict(StageKinds=kinds, NStages={1}, Depth=25, Caps={16, 256}, InitLens={66, 130},
                                                       Params={0, 1, 3, 64, 65, 100}, MaxLen=400, PipeFlavs=both), **over)),
                12 if quick else 150)
    def bigtree(kinds, params, flavs):
        # complete tree over a long vector: every pair of mutator calls at representative indices, then one poll
        return ("GSpecBigTree", "tree", ad_base(StageKinds=kinds, NStages={1}, Depth=3, Caps={256}, InitLens={66}, Params=params,
                                                Modes={"static"}, MaxLen=400, PipeFlavs=flavs), 0)
    if prop == "C09":
        return [big(LIMIT_KINDS), bigtree(LIMIT_KINDS, {65, 100}, {"plain"})] + [("GSpec", "edge", ad_base(StageKinds={k}, Depth=D, PipeFlavs={"plain"}, InitLens={2},
                                          Modes={"dyn", "dyninit"},
                                          Params={0, 1, 3}), 0) for k in sorted(LIMIT_KINDS)] + [
            ("GSpecCore", "tree", ad_base(StageKinds={k}, Depth=D, CoreSet="lean", **dyn2), 0) for k in sorted(LIMIT_KINDS)] + [
            ("GSpecLimits", "tree", ad_base(Depth=D, Modes={"dyninit", "dyn"}, Params={1, 3, 4}, InitLens={2}), 0),
            ("GSpec", "edge", ad_base(Depth=D, Caps={1}, InitLens={2}, Modes={"dyninit"}, Params={1, 2}, PipeFlavs={"plain"}), 0),
            ("GSpecTxnSmall", "edge", ad_base(Depth=D + 2, InitLens={2}, Modes={"static"}, Params={2}, MaxLen=4), 0),
            ("GSpecTxn", "sim", ad_base(Depth=40, Caps={1, 2, 16}, InitLens={0, 1, 3, 5}, Params={0, 1, 2, 3, 5, 8}, MaxLen=8,
                                        PipeFlavs=both), sim_n(500, 6000))]
    if prop == "C10":
        K = {"filter", "filter_map"}
        return [big(K), bigtree(K, {1}, both), ("GSpec", "edge", ad_base(StageKinds=K, Depth=D, InitLens={3}, PipeFlavs=both), 0),
                ("GSpecCore", "tree", ad_base(StageKinds=K, Depth=D, CoreSet="full", InitLens={3}, MaxLen=5, PipeFlavs={"plain"}), 0),
                ("GSpec", "edge", ad_base(StageKinds=K, Depth=D, Caps={1}, InitLens={2}, MaxLen=3, PipeFlavs=both), 0),
                ("GSpecTxnSmall", "edge", ad_base(StageKinds=K, Depth=D + 2, InitLens={2}, MaxLen=4, PipeFlavs={"batched"}), 0),
                ("GSpecTxn", "sim", ad_base(StageKinds=K, Depth=40, Caps={1, 2, 16}, InitLens={0, 1, 3, 5}, MaxLen=8,
                                            PipeFlavs=both), sim_n(500, 6000))]
    if prop == "C11":
        K = {"sort", "sort_by", "sort_by_key"}
        return [big(K), bigtree(K, {1}, {"batched"}),
                ("GSpecTxnTree", "tree", ad_base(StageKinds=K, NStages={1}, Depth=7, InitLens={3}, MaxLen=8, PipeFlavs={"batched"}), 0),
                ("GSpec", "edge", ad_base(StageKinds=K, Depth=D, InitLens={3}, MaxLen=4, PipeFlavs={"batched"}), 0),
                ("GSpecCore", "tree", ad_base(StageKinds=K, Depth=D, CoreSet="full", InitLens={3}, MaxLen=5, PipeFlavs={"plain"}), 0),
                ("GSpec", "edge", ad_base(StageKinds=K, Depth=D, Caps={1}, InitLens={2}, MaxLen=3), 0),
                ("GSpecTxnSmall", "edge", ad_base(StageKinds=K, Depth=D + 2, InitLens={3}, MaxLen=5), 0),
                ("GSpecTxn", "sim", ad_base(StageKinds=K, Depth=40, Caps={1, 2, 16}, InitLens={0, 1, 3, 5, 7}, MaxLen=9,
                                            PipeFlavs=both), sim_n(500, 6000))]
    if prop == "C12":
        return [big(ALL_KINDS, NStages={2}, SelfObs={0, 1, 2}), ("GSpecCore", "tree", ad_base(StageKinds=ALL_KINDS, NStages={2}, Depth=3, InitLens={3}, Modes={"dyn", "static"},
                                              Params={2}, SelfObs={0, 1, 2}, MaxLen=5, CoreSet="lean"), 0),
                ("GSpecTxn", "sim", ad_base(StageKinds=ALL_KINDS, NStages={2, 3}, Depth=30, Caps={2, 16}, InitLens={0, 2, 4, 6},
                                            Params={0, 1, 2, 4}, MaxLen=8, SelfObs={0, 1, 2}, PipeFlavs=both),
                 sim_n(1500, 10000))]
    if prop == "C13":
        fixed = dict(Modes={"static"}, PipeFlavs={"twin", "batched"})
        return [("GSpecTxnTree", "tree", ad_base(StageKinds=ALL_KINDS, NStages={1}, Depth=6 if quick else 7, InitLens={3}, Params={2},
                                                 Modes={"static"}, MaxLen=8, PipeFlavs={"twin", "batched"}), 0),
                ("GSpecTxnSmall", "edge", ad_base(StageKinds={"head", "tail", "skip", "filter", "sort"}, Depth=D + 2,
                                                  InitLens={0, 2}, Params={1}, MaxLen=4, Modes={"static"},
                                                  PipeFlavs={"twin"}), 0),
                ("GSpecTxn", "sim", ad_base(StageKinds=ALL_KINDS, NStages={1, 2}, Depth=40, Caps={16, 64}, InitLens={0, 2, 5}, Params={0, 1, 3},
                                            MaxLen=8, **fixed), sim_n(800, 8000)),
                ("GSpecTxn", "sim", ad_base(StageKinds=ALL_KINDS, NStages={1, 2}, Depth=40, Caps={1, 16}, InitLens={0, 2, 5}, Params={0, 1, 3},
                                            MaxLen=8, PipeFlavs={"batched"}), sim_n(400, 5000))]
    if prop == "C14":
        return [("GSpec", "edge", ad_base(StageKinds=ALL_KINDS, Depth=D, InitLens={2}, Modes={"dyn"}, Params={1, 3}, PipeFlavs=both), 0),
                ("GSpecLimits", "tree", ad_base(Depth=D, Modes={"dyninit"}, Params={1, 3, 4}, InitLens={2}, PipeFlavs=both), 0),
                ("GSpecCore", "tree", ad_base(StageKinds=ALL_KINDS - LIMIT_KINDS, Depth=D, CoreSet="lean", InitLens={2}, MaxLen=4), 0),
                ("GSpecTxnWake", "tree", ad_base(StageKinds={"skip", "filter"}, Modes={"static"}, Params={0}, Depth=D + 3, InitLens={0}, MaxLen=4,
                                                 PipeFlavs=both), 0),
                ("GSpecTxn", "sim", ad_base(StageKinds=ALL_KINDS, NStages={1, 2, 3}, Depth=40, Caps={1, 16}, InitLens={0, 2, 5}, Params={0, 1, 3},
                                            MaxLen=8, SelfObs={0, 1}, PipeFlavs=both), sim_n(1000, 8000))]
    if prop == "C15":
        K = {"head", "tail"}
        return [("GSpec", "edge", ad_base(StageKinds=K, Depth=D, Modes={"static"}, InitLens={3},
                                          Params={1, 2}, MaxLen=4, PipeFlavs=both), 0),
                ("GSpecCore", "tree", ad_base(StageKinds=K, Depth=D - 1 if quick else D, CoreSet="full", Modes={"static"}, Params={1, 2, 3},
                                              InitLens={2, 3}, MaxLen=5, PipeFlavs=both), 0),
                ("GSpecTxnSmall", "edge", ad_base(StageKinds=K, Depth=D + 2, Modes={"static"}, InitLens={3}, Params={2}, MaxLen=5,
                                                  PipeFlavs={"batched"}), 0),
                ("GSpecTxn", "sim", ad_base(StageKinds=K, Depth=40, Caps={1, 16}, Modes={"static"}, InitLens={0, 2, 5, 8}, Params={0, 1, 2, 3, 5},
                                            MaxLen=10, PipeFlavs=both), sim_n(500, 6000))]
    raise ToolError("no adapters plan for " + prop)


def ad_nontrivial(prop):
    def polls_after_change(b):
        if isinstance(b, dict):
            return True
        ops = [o["op"] for o in b[1:]]
        ch = [j for j, o in enumerate(ops) if o in MUT_OPS or o in ("TxnCommit", "Limit")]
        return bool(ch) and "Poll" in ops[ch[0] + 1:]

    def c13(b):
        ops = [o["op"] for o in b[1:]]
        return polls_after_change(b) and any(p["flav"] == "batched" for p in b[0]["pipes"])

    def c12(b):
        return polls_after_change(b) and len(b[0]["pipes"][0]["chain"]) >= 2

    def c14(b):
        # a poll, then a change, then a poll again
        ops = [o["op"] for o in b[1:]]
        if "Poll" not in ops:
            return False
        i = ops.index("Poll")
        rest = ops[i + 1:]
        ch = [j for j, o in enumerate(rest) if o in MUT_OPS or o in ("TxnCommit", "Limit", "LimitDrop", "DropVector")]
        return bool(ch) and "Poll" in rest[ch[0] + 1:]
    return dict(C09=polls_after_change, C10=polls_after_change, C11=polls_after_change, C12=c12, C13=c13, C14=c14,
                C15=polls_after_change)[prop]


AD_RULES = dict(
    C09="TLC generates (initial contents, limit, chain=[head|tail|skip in static / dynamic / dynamic-with-initial mode], operation history) "
        "from GenAdapters.tla: transition cover + random walks; non-trivial = a poll after at least one source or limit change",
    C10="same for filter / filter_map, plain and batched, capacities 1 and 16 (Reset from lag); non-trivial = poll after a change",
    C11="same for sort / sort_by / sort_by_key with ties under the comparison; non-trivial = poll after a change",
    C12="chains of 2-3 stages over all 8 adapter kinds incl. the adapter-itself-as-observer path; non-trivial = chain >= 2 and a poll after a change",
    C13="fixed-parameter adapters on a batched pipe (and a plain twin on the same vector), histories with transactions; non-trivial = "
        "batched pipe polled after a change",
    C14="all adapters and chains; every poll that returns an item or the end after a Pending poll must find its waker woken; non-trivial = "
        "poll, change, poll",
    C15="static head/tail, plain and batched; limit checked after every single diff; non-trivial = poll after a change",
)


def ad_sig(v):
    d = v["detail"]
    if d.get("op") == "Case":
        cause = "limit-decrease-from-beyond-length" if d.get("d2") else ("limit-change" if d.get("new", -1) >= 0 else (d.get("d") or {}).get("k"))
        if d.get("d4"):
            cause = "truncate-forwarded"   # a source Truncate answered by a Truncate of the sorted view
        fam = "sort" if str(d.get("kind", "")).startswith("sort") else d.get("kind")
        return dict(layer="adapters", clause=v["clause"], stage_kind=d.get("kind"), stage_mode="static" if fam == "sort" else "dyninit",
                    stage_family=fam, cause=cause, one_step=True)
    stage = d.get("stage", 0) or 0
    chain = d.get("chain") or (d.get("pipes") or [{}])[(d.get("pipe") or 1) - 1].get("chain", [])
    st = chain[stage - 1] if 1 <= stage <= len(chain) else {}
    sig = dict(layer="adapters", clause=v["clause"], stage_kind=st.get("kind"), stage_mode=st.get("mode"),
               stage_family="sort" if str(st.get("kind", "")).startswith("sort") else st.get("kind"))
    cause = None
    if st and d.get("op") == "Poll":
        ps = set(d.get("pset", [[]] * stage)[stage - 1])
        fn = set(d.get("fin", [[]] * stage)[stage - 1])
        inlen = d.get("inlen", 0)
        # the lengths the stage's input may have had while the limit change was processed: at the last quiescent point
        # (inlen), before this poll and after it -- and anything in between (diffs of one poll grow and shrink it)
        lens0 = [inlen] + [len(v[stage - 1]) for v in (d.get("views") or [], d.get("newviews") or []) if len(v) >= stage]
        inlens = range(min(lens0), max(lens0) + 1)
        # D2: a decrease o -> n with o > length > n >= 1.  Both limits may belong to an EARLIER poll of the same quiescent
        # period (a limit change's PopFronts are parked and handed out one per poll), so n ranges over pset as well
        if st.get("kind") in LIMIT_KINDS and any(o > ln > n >= 1 for o in ps for n in (fn | ps) for ln in inlens):
            cause = "limit-decrease-from-beyond-length"
        elif str(st.get("kind", "")).startswith("sort") and "Truncate" in d.get("outkinds", []):
            # a sort stage never produces a Truncate of its own: one in its output is a forwarded source Truncate
            # (the stage below may be untapped, so its output cannot be inspected)
            cause = "truncate-forwarded"
        elif "Reset" in d.get("inkinds", []):
            cause = "reset-input"
    if cause is None and st and d.get("op") == "Poll":
        # D2 one or more UNTAPPED stages below (an adapter used as the observer of the next one has no tap of its own, so its
        # wrong output first shows as a failure of the stage above): the same condition, evaluated for that stage, on the length
        # of its own input before / after this poll
        j = stage - 1
        views, newviews = d.get("views") or [], d.get("newviews") or []
        while j >= 1 and chain[j - 1].get("self", 0) == 1:
            low = chain[j - 1]
            if low.get("kind") == "tail":
                ps = set(d.get("pset", [[]] * j)[j - 1])
                fn = set(d.get("fin", [[]] * j)[j - 1])
                lens0 = [len(v[j - 1]) for v in (views, newviews) if len(v) >= j] or [0]
                lens = range(min(lens0), max(lens0) + 1)
                if any(o > ln > n >= 1 for o in ps for n in (fn | ps) for ln in lens):
                    cause = "limit-decrease-from-beyond-length"
                    sig.update(stage_kind="tail", stage_mode=low.get("mode"), stage_family="tail", root_stage=j)
                    break
            j -= 1
    if d.get("op") == "Begin":
        cause = "initial-values"
    sig["cause"] = cause
    if len(chain) >= 2 and stage >= 2:
        prev = chain[stage - 2]
        sig["below"] = "%s/%s/self%d" % (prev.get("kind"), prev.get("mode"), prev.get("self", 0))
    return sig


def ad_validate(trace, work):
    c = os.path.join(work, "TraceAdapters.cfg")
    write_cfg(c, spec="TraceSpec", constants=AD_TRACE, postcondition="TraceAccepted")
    return validate("TraceAdapters", c, trace, work)


def algo_collect(prop, tier, seed, work, beh_path, offset):
    """One-step cases of AdapterAlgo.tla: model-checked (ASSUMEs of MCAlgo) and run on the real adapters."""
    quick = tier == "quick"
    consts = dict(MaxN=4 if quick else 5, MaxP=5 if quick else 7, TailLimitDecreaseUsesOldLimit=True)
    cfg = os.path.join(work, "MCAlgo.cfg")
    write_cfg(cfg, init="Init", next_="Next", constants=consts)
    uf = os.path.join(work, "algo-cases.out")
    r = tlc("MCAlgo", cfg, work, workers=1, timeout=3000, userfile=uf, tag="mcalgo")
    if not tlc_ok(r, "MCAlgo"):
        log(r["out"][-4000:])
        raise ToolError("MCAlgo: the transcription does not satisfy the view rule (or D2 is not characterised exactly): model error")
    cases = os.path.join(work, "algo-cases.ndjson")
    n = 0
    with open(cases, "w") as o:
        for js in parse_user_lines(uf, "B"):
            o.write(js + "\n")
            n += 1
    os.remove(uf)
    trace = os.path.join(work, "algo-trace.ndjson")
    run_harness(["algo", cases, trace])
    c = os.path.join(work, "TraceAlgo.cfg")
    write_cfg(c, spec="TraceSpec", constants=dict(TailLimitDecreaseUsesOldLimit=True), postcondition="TraceAccepted")
    val = validate("TraceAlgo", c, trace, work, nchunks=8)
    # two runs (plain, batched) per case: map run -> case line
    for v in val["violations"]:
        v["run"] = offset + (v["run"] + 1) // 2
    with open(beh_path, "a") as o, open(cases) as i:
        for line in i:
            o.write(line)
    st = val["stats"] + [0] * 4
    os.remove(trace)
    return dict(violations=val["violations"], states=val["states"], n=n, drift=st[2], with_output=st[3],
                domain="sources of length 0..%d, limits 0..%d, every applicable diff of the 11 kinds, every limit change" % (consts["MaxN"], consts["MaxP"]))


def sortalgo_collect(prop, tier, seed, work, beh_path, offset):
    """One-step cases of SortAlgo.tla (relational transcription of sort.rs): model-checked for the three key functions of the
    harness (ASSUME of MCSortAlgo: every allowed result keeps the bookkeeping exact and rebuilds a sorted permutation, except the
    Truncate arm, wrong exactly when ~TruncateOK = finding D4) and run on the real Sort / SortBy / SortByKey."""
    quick = tier == "quick"
    maxn = 3 if quick else 4
    cases = os.path.join(work, "sort-cases.ndjson")
    n = 0
    with open(cases, "w") as o:
        for mode in ("sort", "sort_by", "sort_by_key"):
            cfg = os.path.join(work, "MCSortAlgo-%s.cfg" % mode)
            write_cfg(cfg, init="Init", next_="Next", constants=dict(MaxN=maxn, KeyMode=mode))
            uf = os.path.join(work, "sort-cases-%s.out" % mode)
            r = tlc("MCSortAlgo", cfg, work, workers=1, timeout=3000, userfile=uf, tag="mcsort-" + mode)
            if not tlc_ok(r, "MCSortAlgo"):
                log(r["out"][-4000:])
                raise ToolError("MCSortAlgo(%s): the transcription does not satisfy C11's rule (or D4 is not characterised exactly): model error" % mode)
            for js in parse_user_lines(uf, "B"):
                o.write(js + "\n")
                n += 1
            os.remove(uf)
    trace = os.path.join(work, "sort-trace.ndjson")
    run_harness(["algo", cases, trace])
    c = os.path.join(work, "TraceSortAlgo.cfg")
    write_cfg(c, spec="TraceSpec", constants={}, postcondition="TraceAccepted")
    val = validate("TraceSortAlgo", c, trace, work, nchunks=8)
    for v in val["violations"]:
        v["run"] = offset + (v["run"] + 1) // 2
    with open(beh_path, "a") as o, open(cases) as i:
        for line in i:
            o.write(line)
    st = val["stats"] + [0] * 4
    os.remove(trace)
    return dict(violations=val["violations"], states=val["states"], n=n, drift=st[2], with_output=st[3],
                domain="sort / sort_by (v mod 4 descending) / sort_by_key (v mod 3): every source of 0..%d distinct values of 1..4, every "
                       "applicable diff of the 11 kinds with values that tie and do not tie" % maxn)


def adapters_pipeline(prop, tier, seed, work, t0):
    quick = tier == "quick"
    # ---- 1. design level: the view functions / diff algebra are exercised exhaustively by MCVecOps (C18);
    #         the source model by MCVec.  Here: MCVec on small constants for the source side.
    cfg = os.path.join(work, "MCVec.cfg")
    write_cfg(cfg, spec="Spec", constants=dict(MaxDecs=1, SubIds={1, 2}, Caps={1, 2}, MaxLen=2,
                                               LagThenClosedLosesState=False, MaxOps=4 if quick else 5),
              view="View", constraints=["Bound"], invariants=VEC_INVS, properties=VEC_PROPS)
    mc = tlc("MCVec", cfg, work, workers=8, timeout=3000, tag="mc")
    if not tlc_ok(mc, "MCVec"):
        log(mc["out"][-5000:])
        raise ToolError("MCVec: model error")
    beh = os.path.join(work, "beh.ndjson")
    n = 0
    gstates = gtrans = 0
    big_range = []
    for j, (spec, mode, consts, num) in enumerate(ad_plans(prop, quick)):
        c = os.path.join(work, "Gen%d.cfg" % j)
        if mode == "edge":
            write_cfg(c, spec=spec, constants=consts, view="View", constraints=["Bound"], action_constraints=["Edge"])
            k, r = gen_behaviours("GenAdapters", c, work, beh, "edge", tag="g%d" % j, workers=12, timeout=3000)
            gstates += r["distinct"]
            gtrans += r["generated"]
        elif mode == "tree":
            write_cfg(c, spec=spec, constants=consts, constraints=["BoundTree"], invariants=["PrintAtDepth"])
            k, r = gen_behaviours("GenAdapters", c, work, beh, "tree", tag="g%d" % j, workers=12, timeout=3000)
            gstates += r["distinct"]
            gtrans += r["generated"]
        else:
            write_cfg(c, spec=spec, constants=consts, constraints=["BoundTree"], invariants=["PrintAtDepth"])
            k, r = gen_behaviours("GenAdapters", c, work, beh, "sim", num=num, depth=consts["Depth"] + 1, seed=seed + j, tag="g%d" % j,
                                  timeout=3000)
        if spec in ("GSpecBig", "GSpecBigTree"):
            big_range.append((n, n + k))
        n += k
        log("gen %s %s: %d (%.1fs)" % (spec, mode, k, r["wall"]))
    if big_range:
        spread(beh, big_range)
    driver_policy(beh, 2)
    trace = os.path.join(work, "trace.ndjson")
    hrc = run_harness(["adapters-replay", beh, trace])
    val = ad_validate(trace, work)
    algo = None
    if prop in ("C09", "C10", "C15"):
        algo = algo_collect(prop, tier, seed, work, beh, n)
        val["violations"] += algo["violations"]
        val["states"] = val.get("states", 0) + algo["states"]
        n += algo["n"]
    salgo = None
    if prop == "C11":
        salgo = sortalgo_collect(prop, tier, seed, work, beh, n)
        val["violations"] += salgo["violations"]
        val["states"] = val.get("states", 0) + salgo["states"]
        n += salgo["n"]
    st = val["stats"] + [0] * 14
    extra = dict(trace_events=st[0], calls_followed=st[2], generator_states=gstates, generator_transitions=gtrans,
                 exercised=dict(polls_with_output=st[3], polls_with_lag_reset=st[4], stream_ends_seen=st[6],
                                wake_checks_nonvacuous=st[7], quiescent_view_checks=st[8], twin_comparisons=st[9],
                                limit_changes=st[10], bounded_stage_outputs=st[11], batched_outputs=st[12]),
                 harness_hang=(hrc == 3), exhaustive=False,
                 mc_config="source side: Vec.tla (MCVec); adapters are judged on the real code's output by TraceAdapters.tla against Adapters.tla")
    if algo:
        extra["algo_one_step"] = dict(cases=algo["n"], exhaustive_domain=algo["domain"], drift_cases=algo["drift"],
                                      cases_with_output=algo["with_output"],
                                      note="MCAlgo: every arm of head/tail/skip handle_diff and update_limit/update_count checked against the view "
                                           "rule on the transcription (AdapterAlgo.tla) for every consistent small state and input; the same cases "
                                           "run on the real adapters over a scripted input stream (TraceAlgo.tla)")
    if salgo:
        extra["algo_one_step"] = dict(cases=salgo["n"], exhaustive_domain=salgo["domain"], drift_cases=salgo["drift"],
                                      cases_with_output=salgo["with_output"],
                                      note="MCSortAlgo: every result the relational transcription of sort.rs (SortAlgo.tla: binary search may "
                                           "return any equal position, sort_by need not be stable) allows keeps the index bookkeeping exact and "
                                           "rebuilds a sorted permutation, from every consistent bookkeeping state; the Truncate arm is wrong "
                                           "exactly when ~TruncateOK (finding D4). The same cases run on the real adapters (TraceSortAlgo.tla); "
                                           "drift = emitted diffs outside the relation")
    mc2 = dict(distinct=mc["distinct"] + gstates, generated=mc["generated"] + gtrans)
    return finish(prop, tier, seed, t0, mc2, n, beh, val, AD_RULES[prop], ad_nontrivial(prop), extra,
                  ["taps between the stages are transparent (they forward every poll and item unchanged)",
                   "the harness logs initial values and every diff verbatim; TLC applies them (VecOps!Apply)",
                   "bounded vector lengths / limits in the exhaustive part; random walks beyond"],
                  "adapters", ad_sig)


for _p in ("C09", "C10", "C11", "C12", "C13", "C14", "C15"):
    CHECKS[_p] = adapters_pipeline


# =========================================================================== C18: VectorDiff::map / apply (pure function)
def vecops_pipeline(prop, tier, seed, work, t0):
    quick = tier == "quick"
    cfg = os.path.join(work, "GenVecOps.cfg")
    consts = dict(MaxL=3 if quick else 4, Vals={1, 2} if quick else {1, 2, 3}, NRandom=2000 if quick else 100000,
                  RandLen=40)
    write_cfg(cfg, init="Init", next_="Next", constants=consts)
    uf = os.path.join(work, "cases.out")
    r = tlc("GenVecOps", cfg, work, workers=1, timeout=3000, userfile=uf, seed=seed, tag="gen")
    if not tlc_ok(r, "GenVecOps"):
        log(r["out"][-4000:])
        raise ToolError("GenVecOps: the commutation law fails on the specification's own definitions (spec error)")
    beh = os.path.join(work, "beh.ndjson")
    n = 0
    with open(beh, "w") as o:
        for js in parse_user_lines(uf, "B"):
            o.write(js + "\n")
            n += 1
    os.remove(uf)
    trace = os.path.join(work, "trace.ndjson")
    run_harness(["vecops", beh, trace])
    c = os.path.join(work, "TraceVecOps.cfg")
    write_cfg(c, spec="TraceSpec", postcondition="TraceAccepted")
    val = validate("TraceVecOps", c, trace, work, nchunks=8 if quick else 16)
    for v in val["violations"]:
        v["run_case"] = True
    st = val["stats"] + [0] * 4
    extra = dict(cases=st[1], cases_where_apply_must_panic=st[2], cases_with_effective_change=st[3],
                 exhaustive=True,
                 exhaustive_domain="all vectors of length <= %d over %d values x all diffs of the 11 kinds with every index up to 2 beyond "
                                   "the end x 4 mappings; plus %d random cases with lengths <= 40; plus every diff kind with boundary indices on vectors of "
                                   "length 1, 63, 64, 65, 66, 129, 200 (imbl representation changes) in three internal shapes" % (consts["MaxL"], len(consts["Vals"]), consts["NRandom"]),
                 mc_config="ASSUME MCCommute: the law holds on VecOps.tla's own Apply/MapDiff for the exhaustive domain")
    mc = dict(distinct=max(n, 1), generated=max(n, 1))

    def sig(v):
        return dict(layer="vecops", clause=v["clause"], kind=v["detail"]["d"]["k"])
    return finish(prop, tier, seed, t0, mc, n, beh, val,
                  "cases enumerated by TLC (GenVecOps.tla): exhaustive small domain + random larger vectors; every case is distinct; "
                  "non-trivial = the diff changes the vector or must panic",
                  lambda c: True, extra,
                  ["VecOps.tla's Apply/MapDiff are the documented meaning of the eleven diff kinds",
                   "states/transitions here count enumerated cases, not a behaviour graph (pure function)"],
                  "vecops", sig)


CHECKS["C18"] = vecops_pipeline


# =========================================================================== C20: drop accounting (all layers, tracked elements)
def tokens_pipeline(prop, tier, seed, work, t0):
    quick = tier == "quick"
    beh_all = os.path.join(work, "beh.ndjson")
    open(beh_all, "w").close()
    all_viol = []
    stats = [0, 0, 0, 0]
    offset = 0
    states = 0
    gstates = gtrans = 0
    parts = []
    # ---- obs layer
    b = os.path.join(work, "beh-obs.ndjson")
    c = os.path.join(work, "GenObsEdge.cfg")
    write_cfg(c, spec="Spec", constants=dict(OBS_MC, Depth=4 if quick else 5), view="View", constraints=["Bound"], action_constraints=["Edge"])
    k1, r = gen_behaviours("GenObs", c, work, b, "edge", tag="oe")
    gstates += r["distinct"]; gtrans += r["generated"]
    c = os.path.join(work, "GenObsSim.cfg")
    write_cfg(c, spec="Spec", constants=dict(NV=3, OwnerIds={1, 2, 3}, SubIds={1, 2, 3, 4}, WeakIds={1, 2}, GuardIds={1, 2},
                                            Kinds={"unique", "shared"}, Depth=40), constraints=["BoundTree"], invariants=["PrintAtDepth"])
    k2, _ = gen_behaviours("GenObs", c, work, b, "sim", num=300 if quick else 10000, depth=41, seed=seed, tag="os")
    parts.append(("obs", b, ["obs-replay", b, None, "--nv", "3", "--track"], k1 + k2))
    # ---- vec layer
    b = os.path.join(work, "beh-vec.ndjson")
    base = dict(MaxDecs=2, SubIds={1, 2}, MaxLen=2, LagThenClosedLosesState=False, InitLens={0}, PreSubs={0})
    k = 0
    for j, (spec, over, mode) in enumerate([("SpecStreams", dict(Caps={1, 2}, Depth=5 if quick else 6), "edge"),
                                            ("SpecTxn", dict(Caps={1, 16}, Depth=5 if quick else 6, SubIds={1}), "edge"),
                                            ("SpecTxnCore", dict(Caps={16}, Depth=6 if quick else 7, InitLens={2}, PreSubs={2}, MaxLen=4), "tree"),
                                            ("SpecLag", dict(Caps={1, 2}, Depth=5 if quick else 6, InitLens={1}, PreSubs={2}, MaxLen=4), "tree"),
                                            ("SpecTxnSubs", dict(Caps={16}, Depth=5 if quick else 6, InitLens={1}, PreSubs={1, 2}, MaxLen=4), "tree")]):
        c = os.path.join(work, "GenVec%s%d.cfg" % (mode, j))
        if mode == "edge":
            write_cfg(c, spec=spec, constants=dict(base, **over), view="View", constraints=["Bound"], action_constraints=["Edge"])
        else:
            write_cfg(c, spec=spec, constants=dict(base, **over), constraints=["BoundTree"], invariants=["PrintAtDepth"])
        kk, r = gen_behaviours("GenVec", c, work, b, mode, tag="ve%d" % j, workers=12)
        gstates += r["distinct"]; gtrans += r["generated"]
        k += kk
    c = os.path.join(work, "GenVecSim.cfg")
    write_cfg(c, spec="SpecAll", constants=dict(MaxDecs=3, SubIds={1, 2, 3}, Caps={1, 2, 3, 16}, MaxLen=6, LagThenClosedLosesState=False, Depth=50,
                                                InitLens={0}, PreSubs={0}),
              constraints=["BoundTree"], invariants=["PrintAtDepth"])
    kk, _ = gen_behaviours("GenVec", c, work, b, "sim", num=300 if quick else 10000, depth=51, seed=seed, tag="vs")
    parts.append(("vec", b, ["vec-replay", b, None, "--track"], k + kk))
    # ---- adapters layer
    b = os.path.join(work, "beh-ad.ndjson")
    c = os.path.join(work, "GenAdSim.cfg")
    write_cfg(c, spec="GSpecTxn", constants=ad_base(StageKinds=ALL_KINDS, NStages={1, 2, 3}, Depth=30, Caps={1, 16}, InitLens={0, 2, 5},
                                                  Params={0, 1, 3}, MaxLen=8, SelfObs={0, 1}, PipeFlavs={"plain", "batched", "twin"}),
              constraints=["BoundTree"], invariants=["PrintAtDepth"])
    kk, _ = gen_behaviours("GenAdapters", c, work, b, "sim", num=600 if quick else 20000, depth=31, seed=seed, tag="as")
    parts.append(("adapters", b, ["adapters-replay", b, None, "--track"], kk))
    crashed = None
    for layer, b, cmd, cnt in parts:
        if layer == "obs":
            waker_policy(b)
        else:
            driver_policy(b, 8 if layer == "vec" else 2)
        trace = os.path.join(work, "trace-%s.ndjson" % layer)
        cmd = [x if x is not None else trace for x in cmd]
        bin_ = build_harness()
        p = subprocess.run([bin_] + cmd, stdout=subprocess.PIPE, stderr=subprocess.STDOUT, text=True, timeout=1800)
        if p.returncode not in (0, 3):
            # abnormal exit (abort / signal) while running tracked code: data, attributed to the last run started
            last = 0
            with open(trace) as f:
                for line in f:
                    if '"e":"Begin"' in line:
                        last = json.loads(line)["run"]
            crashed = (layer, last + offset, p.returncode)
            log("harness crashed in layer %s (rc %d) during run %d" % (layer, p.returncode, last))
        c = os.path.join(work, "TraceTokens.cfg")
        write_cfg(c, spec="TraceSpec", postcondition="TraceAccepted")
        val = validate("TraceTokens", c, trace, work)
        for v in val["violations"]:
            v["run"] += offset
            v["detail"]["layer"] = layer
        all_viol += val["violations"]
        st = val["stats"] + [0] * 4
        stats = [a + b_ for a, b_ in zip(stats, st[:4])]
        states += val["states"]
        with open(beh_all, "a") as o, open(b) as i:
            for line in i:
                o.write(line)
        offset += cnt
        os.remove(trace)
    if crashed:
        all_viol.append(dict(run=crashed[1], event=0, prop="C20", clause="abnormal-exit",
                             detail=dict(layer=crashed[0], rc=crashed[2], op="process")))
    val = dict(violations=all_viol, stats=stats, states=states)
    extra = dict(trace_events=stats[0], token_events_checked=stats[2], runs_torn_down_clean=stats[3],
                 generator_states=gstates, generator_transitions=gtrans, exhaustive=False,
                 layers=[dict(layer=l, behaviours=cnt) for l, _, _, cnt in parts])
    mc = dict(distinct=max(gstates, 1), generated=max(gtrans, 1))

    def sig(v):
        return dict(layer=v["detail"].get("layer"), clause=v["clause"], op=v["detail"].get("op"))
    return finish(prop, tier, seed, t0, mc, offset, beh_all, val,
                  "behaviours of the obs, vec and adapters layers (transition covers + random walks generated by TLC) executed with an "
                  "instrumented element type; non-trivial = at least three operations",
                  lambda b: len(b) >= 4, extra,
                  ["only drop ACCOUNTING is decided (construction / clone / use / drop events of an instrumented element type); undefined "
                   "behaviour that does not disturb the counters is invisible to this technique",
                   "states/transitions are those of the generating TLC runs"],
                  "tokens", sig, level="model_checking")


CHECKS["C20"] = tokens_pipeline


# =========================================================================== concurrent layer (threads; C02, C03, C04)
import sys as _sys
_sys.path.insert(0, os.path.join(ROOT, "tools"))
import conc_hist  # noqa: E402

LIN_CONST = dict(NV=1000, OwnerIds={1, 2, 3}, SubIds={1, 2, 3}, WeakIds={1, 2, 3}, GuardIds={1, 2, 3}, Kinds={"shared"})
_rej_re = re.compile(r'<<\s*"REJECTED",\s*(\d+),\s*("(?:[^"\\]|\\.)*")\s*>>')


def _lin_runs(trace):
    """[(run id, first line index (0-based), last line index)] of a lin trace."""
    runs = []
    with open(trace) as f:
        for i, line in enumerate(f):
            if '"e":"Begin"' in line:
                runs.append([json.loads(line)["run"], i, i])
            elif runs:
                runs[-1][2] = i
    return runs


def _lin_classify(events, rej):
    """Which property does an unlinearizable history violate? events: the run's records; rej: the rejected record."""
    owners = 1
    for e in events:
        if e.get("e") == "setup" and e.get("op") == "CloneOwner":
            owners += 1
    pend = {}
    for e in events:
        if e.get("e") == "inv":
            pend[e["t"]] = e["op"]
        elif e.get("e") == "resp":
            op = pend.pop(e["t"], None)
            if op == "DropOwner":
                owners -= 1
            elif op == "Upgrade" and e["ret"]["t"] == "Ok":
                owners += 1
    if rej.get("e") in ("EndRun", "Stuck"):
        closed = any(e.get("e") == "Stuck" and e.get("closed") for e in events)
        if owners <= 0:
            # every owner is gone.  Was the observable really closed?  Then the parked subscriber lost the
            # wake-up of the close (C02); otherwise nobody closed it (C03).
            return ("C02", "stuck-although-closed") if closed else ("C03", "stuck-after-last-owner-dropped")
        return ("C02", "stuck-with-update-available", ("C02", "C04"))
    if rej.get("e") == "Hung":
        return ("C04", "deadlock")
    if rej.get("e") == "resp":
        # which call?
        pend = {}
        op = None
        for e in events:
            if e.get("e") == "inv":
                pend[e["t"]] = e["op"]
            elif e.get("e") == "resp":
                if e is rej or (e.get("t") == rej.get("t") and e.get("ret") == rej.get("ret") and pend.get(e["t"]) is not None and e == rej):
                    op = pend.get(e["t"])
                pend.pop(e["t"], None)
        if rej["ret"]["t"] == "Panic":
            return ("C03" if op == "DropOwner" else "C04", "panic")
        if op == "PollNext" and rej["ret"]["t"] == "End":
            return ("C03", "end-while-owner-alive")
        if op == "Upgrade":
            return ("C03", "upgrade-result")
        return ("C04", "not-linearizable")
    return ("C04", "not-linearizable")


def validate_lin(trace, work, tag="lin", max_rejects=40):
    """Linearization search with cut-and-continue: every rejected history is cut out and the rest re-checked."""
    c = os.path.join(work, "TraceLin-%s.cfg" % tag)     # one config per parallel validator (never rewritten while another TLC reads it)
    write_cfg(c, spec="TraceSpec", constants=LIN_CONST, view="View", constraints=["Far"], postcondition="TraceAccepted")
    lines = open(trace).read().splitlines()
    runs = _lin_runs(trace)
    viol = []
    states = 0
    start = 0
    rounds = 0
    while start < len(lines) and rounds <= max_rejects:
        rounds += 1
        part = os.path.join(work, "%s-part.ndjson" % tag)
        with open(part, "w") as f:
            f.write("\n".join(lines[start:]) + "\n")
        r = tlc("TraceLin", c, work, workers=1, timeout=1500, env_extra={"TRACE": part}, tag=tag, dfs=True, xmx="2g")
        if r["rc"] == 124:
            raise ToolError("linearization search timed out")
        states += r["distinct"]
        if "STATS" not in r["out"]:
            with open(os.path.join(WORKROOT, "tracelin-failure.log"), "w") as f:
                f.write(r["out"])
            errs = [l for l in r["out"].splitlines() if "rror" in l or "xception" in l]
            log("\n".join(errs[:20]))
            raise ToolError("TraceLin did not finish (rc %d); full output in work/tracelin-failure.log" % r["rc"])
        m = _rej_re.search(r["out"])
        if not m:
            break
        idx = start + int(m.group(1)) - 1          # 0-based line of the event no branch could consume
        rej = json.loads(json.loads(m.group(2)))
        run = next((x for x in runs if x[1] <= idx <= x[2]), None)
        if run is None:
            raise ToolError("rejected event outside any run")
        events = [json.loads(x) for x in lines[run[1]:run[2] + 1]]
        cls = _lin_classify(events, rej)
        prop, clause = cls[0], cls[1]
        viol.append(dict(run=run[0], event=idx - run[1] + 1, prop=prop, clause=clause, props=tuple(cls[2]) if len(cls) > 2 else (prop,),
                         detail=dict(op=rej.get("e"), rejected=rej, history=events)))
        start = run[2] + 1
    os.path.exists(part) and os.remove(part)
    return dict(violations=viol, states=states, events=len(lines), runs=len(runs))


def lin_collect(prop, tier, seed, work, beh_path, offset):
    """Concurrent part: TLC checks ObsConc, its interleavings are forced on real threads, free-running
    histories are generated from GenLin; all recorded histories are judged by TraceLin."""
    quick = tier == "quick"
    mcs = mct = 0
    inputs = os.path.join(work, "lin-in.ndjson")
    open(inputs, "w").close()
    nsched = 0
    choices = dict(C02=["setpoll", "drop2", "uniq"], C03=["drop2", "dropup", "uniq"], C04=["setpoll", "drop2", "dropup", "guards"])[prop]
    for ch in choices:
        # design level: the repaired model (atomic drop decision) satisfies the invariants for all interleavings
        c = os.path.join(work, "MCObsConc-%s.cfg" % ch)
        write_cfg(c, spec="Spec", constants=dict(Threads={1, 2, 3}, DropDecisionAtomic=True, ProgChoice=ch), view="View",
                  invariants=["ClosedWhenNoOwner", "NotClosedUnderOwner", "NoLostWake", "NoPanic", "CountsMatch"])
        r = tlc("MCObsConc", c, work, workers=4, timeout=900, tag="mcc")
        if not tlc_ok(r, "MCObsConc"):
            log(r["out"][-4000:])
            raise ToolError("MCObsConc(%s): the model violates its invariants (model error)" % ch)
        mcs += r["distinct"]
        mct += r["generated"]
        # every interleaving as a schedule
        c = os.path.join(work, "GenObsConc-%s.cfg" % ch)
        write_cfg(c, spec="Spec", constants=dict(Threads={1, 2, 3}, DropDecisionAtomic=True, ProgChoice=ch), invariants=["PrintSchedule"])
        uf = os.path.join(work, "sched-%s.out" % ch)
        r = tlc("MCObsConc", c, work, workers=4, timeout=900, userfile=uf, tag="gcc")
        tmp = os.path.join(work, "sched-%s.ndjson" % ch)
        open(tmp, "w").close()
        k = conc_hist.convert(uf, tmp, ch)
        os.remove(uf)
        # sample evenly when there are too many
        cap = (500 if quick else 20000)
        lines = open(tmp).read().splitlines()
        step = max(1, len(lines) // cap)
        lines = lines[(seed % step)::step]
        with open(inputs, "a") as o:
            o.write("\n".join(lines) + "\n")
        nsched += len(lines)
        os.remove(tmp)
        log("schedules %s: %d of %d" % (ch, len(lines), k))
    # free-running programs
    c = os.path.join(work, "GenLin.cfg")
    spec = "LSpecHandles" if prop == "C03" else "LSpec"
    write_cfg(c, spec=spec, constants=dict(LIN_CONST, Threads={1, 2, 3}, Depth=14, SetupMin=3, SetupMax=6),
              constraints=["BoundTree"], invariants=["PrintAtDepth"])
    free = os.path.join(work, "lin-free.ndjson")
    kfree, _ = gen_behaviours("GenLin", c, work, free, "sim", num=150 if quick else 6000, depth=15, seed=seed, tag="glin")
    if prop in ("C02", "C03"):
        # the unique Observable: thread 1 owns it (set / update / drop), the other threads subscribe and wait
        c = os.path.join(work, "GenLinU.cfg")
        write_cfg(c, spec=spec, constants=dict(LIN_CONST, Kinds={"unique"}, Threads={1, 2, 3}, Depth=12, SetupMin=2, SetupMax=4),
                  constraints=["BoundTree"], invariants=["PrintAtDepth"])
        ku, _ = gen_behaviours("GenLin", c, work, free, "sim", num=60 if quick else 3000, depth=13, seed=seed + 1, tag="glinu")
        kfree += ku
    with open(inputs, "a") as o, open(free) as i:
        for line in i:
            o.write(line)
    os.remove(free)
    log("free-running programs: %d" % kfree)
    trace = os.path.join(work, "lin-trace.ndjson")
    hrc = run_harness(["threads", inputs, trace], timeout=3000)
    # race family: every 3-call program over a small alphabet (complete tree), each run many times free-running
    c = os.path.join(work, "GenLinRace.cfg")
    write_cfg(c, spec="LSpecRace", constants=dict(LIN_CONST, Threads={1, 2, 3}, Depth=6, SetupMin=0, SetupMax=9),
              constraints=["BoundTree"], invariants=["PrintAtDepth"])
    race = os.path.join(work, "lin-race.ndjson")
    krace, _ = gen_behaviours("GenLin", c, work, race, "tree", tag="grace", workers=8)
    reps = (150 if prop == "C04" else 30) if quick else (1000 if prop == "C04" else 200)
    trace2 = os.path.join(work, "lin-trace-race.ndjson")
    hrc2 = run_harness(["threads", race, trace2, "--repeat", str(reps), "--align", "--jitter", "100"], timeout=6000)
    log("race programs: %d x %d runs" % (krace, reps))
    # validate in parallel chunks
    chunks = split_trace(trace, work, NCPU)

    def one(ip):
        i, p = ip
        return validate_lin(p, work, tag="lin%d" % i)
    with ThreadPoolExecutor(max_workers=NCPU) as ex:
        results = list(ex.map(one, enumerate(chunks)))
    viol = []
    states = events = runs = 0
    for r in results:
        viol += r["violations"]
        states += r["states"]
        events += r["events"]
        runs += r["runs"]
    for p in chunks:
        os.path.exists(p) and os.remove(p)
    n = 0
    with open(beh_path, "a") as o, open(inputs) as i:
        for line in i:
            if line.strip():
                o.write(line if line.endswith("\n") else line + "\n")
                n += 1
    os.remove(trace)
    # race family traces: run id r belongs to program (r - 1) // reps
    chunks = split_trace(trace2, work, NCPU)
    with ThreadPoolExecutor(max_workers=NCPU) as ex:
        results2 = list(ex.map(one, enumerate(chunks)))
    for r in results2:
        for v in r["violations"]:
            v["run"] = n + (v["run"] - 1) // reps + 1
        viol += r["violations"]
        states += r["states"]
        events += r["events"]
        runs += r["runs"]
    for p in chunks:
        os.path.exists(p) and os.remove(p)
    with open(beh_path, "a") as o, open(race) as i:
        for line in i:
            if line.strip():
                o.write(line if line.endswith("\n") else line + "\n")
                n += 1
    os.remove(trace2)
    os.remove(race)
    for v in viol:
        v["run"] += offset
    return dict(violations=viol, states=states, events=events, runs=runs, n=n, nsched=nsched, nfree=kfree, nrace=krace, race_reps=reps,
                mc_states=mcs, mc_trans=mct, hang=(hrc == 3 or hrc2 == 3))


def lin_sig(v):
    d = v["detail"]
    return dict(layer="lin", clause=v["clause"], rejected=(d.get("rejected") or {}).get("e"))


def lin_pipeline(prop, tier, seed, work, t0):
    beh = os.path.join(work, "beh.ndjson")
    open(beh, "w").close()
    lc = lin_collect(prop, tier, seed, work, beh, 0)
    val = dict(violations=lc["violations"], stats=[], states=lc["states"])
    extra = dict(histories_judged=lc["runs"], forced_schedules=lc["nsched"], free_running_programs=lc["nfree"],
                 race_programs=lc["nrace"], runs_per_race_program=lc["race_reps"],
                 history_events=lc["events"], harness_hang=lc["hang"], exhaustive=False,
                 mc_config="ObsConc.tla (3 threads, programs of the families setpoll/drop2/dropup, all interleavings at pause-point granularity), "
                           "DropDecisionAtomic=TRUE")
    mc = dict(distinct=lc["mc_states"], generated=lc["mc_trans"])

    def nontriv(b):
        h = b["hist"] if isinstance(b, dict) else b
        return len({o["h"] for o in h if o["op"] not in ("New", "Go")}) >= 2
    return finish(prop, tier, seed, t0, mc, lc["n"], beh, val,
                  "thread programs: every interleaving of ObsConc.tla's small program families forced through the pause points, plus "
                  "free-running programs generated from GenLin.tla; non-trivial = at least two threads issue calls",
                  nontriv, extra,
                  ["free-running threads sample OS schedules; forced schedules are exact only at the instrumented pause points",
                   "TLC's linearization search over Obs.tla (TraceLin.tla); histories <= 16 calls",
                   "a try_read/try_write failure is accepted whenever another call is in flight (transient internal locking)"],
                  "lin", lin_sig)


CHECKS["C04"] = lin_pipeline


# =========================================================================== C16: async-lock flavour
OBSA_TRACE = dict(OBS_TRACE, FutIds={1, 2}, MaxQ=8, TwoStage={True}, Flavor="async")


def async_pipeline(prop, tier, seed, work, t0):
    quick = tier == "quick"
    # generation assumes the two-stage next() of the current code (the trace specification follows either); the model is
    # checked for both
    a_mc = dict(OBS_MC, FutIds={1, 2}, MaxQ=2, TwoStage={True})
    cfg = os.path.join(work, "MCObsAsync.cfg")
    write_cfg(cfg, spec="ASpec", constants=dict(a_mc, TwoStage={True, False}, Depth=6 if quick else 7), view="View", constraints=["Bound"],
              invariants=["TypeOK", "ATypeOK", "ReadyIffUnseen", "NoLostWake", "ClosedIffNoOwner", "LockExclusion", "GrantExclusion",
                          "EagerService", "WaitersConsistent", "LockWaitersWoken", "WokenWriterCompletes", "WokenReaderProceeds"])
    mc = tlc("GenObsAsync", cfg, work, workers=8, timeout=3000, tag="mc")
    if not tlc_ok(mc, "ObsAsync"):
        log(mc["out"][-5000:])
        raise ToolError("ObsAsync: the model violates its invariants (model error)")
    beh = os.path.join(work, "beh.ndjson")
    n = 0
    # (a) the very same behaviours as C01-C03 (generated from the sync specification)
    c = os.path.join(work, "GenEdge.cfg")
    write_cfg(c, spec="Spec", constants=dict(OBS_MC, Depth=5 if quick else 6), view="View", constraints=["Bound"], action_constraints=["Edge"])
    k, _ = gen_behaviours("GenObs", c, work, beh, "edge", tag="edge")
    n += k
    log("gen sync-spec edge: %d" % k)
    c = os.path.join(work, "GenWake.cfg")
    write_cfg(c, spec="SpecWakeSub", constants=dict(OBS_MC, NV=2, Depth=6 if quick else 7, Kinds={"shared"} if seed % 2 else {"unique"}),
              constraints=["BoundTree"], invariants=["PrintAtDepth"])
    k, _ = gen_behaviours("GenObs", c, work, beh, "tree", tag="wake", workers=12, timeout=1500)
    wake_range = (n, n + k)
    n += k
    log("gen sync-spec wake tree: %d" % k)
    c = os.path.join(work, "GenSim.cfg")
    write_cfg(c, spec="Spec", constants=dict(NV=3, OwnerIds={1, 2, 3}, SubIds={1, 2, 3, 4}, WeakIds={1, 2},
                                            GuardIds={1, 2}, Kinds={"unique", "shared"}, Depth=40),
              constraints=["BoundTree"], invariants=["PrintAtDepth"])
    k, _ = gen_behaviours("GenObs", c, work, beh, "sim", num=300 if quick else 20000, depth=41, seed=seed, tag="sim", timeout=1500)
    n += k
    log("gen sync-spec sim: %d" % k)
    c = os.path.join(work, "GenMany.cfg")
    write_cfg(c, spec="SpecWake", constants=dict(NV=2, OwnerIds={1}, SubIds=set(range(1, 10)), WeakIds={1}, GuardIds={1},
                                                 Kinds={"unique", "shared"}, Depth=45),
              constraints=["BoundTree"], invariants=["PrintAtDepth"])
    k, _ = gen_behaviours("GenObs", c, work, beh, "sim", num=40 if quick else 2000, depth=46, seed=seed + 3, tag="many", timeout=1500)
    n += k
    log("gen sync-spec many-subscriber walks: %d" % k)
    # (b) behaviours with calls issued while guards are held (ObsAsync), generated under BOTH admissible implementations of
    #     next() (two lock acquisitions as today / one): a run whose assumption the implementation does not share is skipped
    #     by the trace specification from the choice point on
    one_stage = []
    for two in (True, False):
        tg = "2" if two else "1"
        n0 = n
        c = os.path.join(work, "GenAEdge%s.cfg" % tg)
        write_cfg(c, spec="ASpec", constants=dict(a_mc, TwoStage={two}, Depth=5 if quick else 6), view="View", constraints=["Bound"],
                  action_constraints=["Edge"])
        k, _ = gen_behaviours("GenObsAsync", c, work, beh, "edge", tag="aedge" + tg, workers=12, timeout=3000)
        n += k
        log("gen async edge (next() %s-stage): %d" % (tg, k))
        # the waiting regime (FIFO queue of the lock, grants, next_ref's second acquisition): complete trees
        for j, (subs_, d) in enumerate([({1}, 9 if quick else 10), ({1, 2}, 8 if quick else 9)]):
            c = os.path.join(work, "GenAWait%d%s.cfg" % (j, tg))
            write_cfg(c, spec="SpecAWait", constants=dict(NV=3, OwnerIds={1}, SubIds=subs_, WeakIds={1}, GuardIds={1}, Kinds={"shared"},
                                                         FutIds={1, 2}, MaxQ=3, TwoStage={two}, Depth=d),
                      constraints=["BoundTree"], invariants=["PrintAtDepth"])
            k, _ = gen_behaviours("GenObsAsync", c, work, beh, "tree", tag="await%d%s" % (j, tg), workers=12, timeout=3000)
            n += k
            log("gen async wait tree %s (next() %s-stage): %d" % (sorted(subs_), tg, k))
        c = os.path.join(work, "GenASim%s.cfg" % tg)
        write_cfg(c, spec="ASpec", constants=dict(NV=3, OwnerIds={1, 2, 3}, SubIds={1, 2, 3, 4}, WeakIds={1}, GuardIds={1, 2}, FutIds={1, 2},
                                                 Kinds={"unique", "shared"}, MaxQ=3, TwoStage={two}, Depth=40),
                  constraints=["BoundTree"], invariants=["PrintAtDepth"])
        k, _ = gen_behaviours("GenObsAsync", c, work, beh, "sim", num=(300 if quick else 20000) // (1 if two else 2), depth=41,
                              seed=seed + (0 if two else 5), tag="asim" + tg, timeout=1500)
        n += k
        log("gen async sim (next() %s-stage): %d" % (tg, k))
        if not two:
            one_stage.append((n0, n))
    n = waker_policy(beh, wake_range, one_stage)
    trace = os.path.join(work, "trace.ndjson")
    hrc = run_harness(["obs-async-replay", beh, trace, "--nv", "3"])
    c = os.path.join(work, "TraceObsAsync.cfg")
    write_cfg(c, spec="TraceSpec", constants=OBSA_TRACE, postcondition="TraceAccepted")
    val = validate("TraceObsAsync", c, trace, work)
    # every rule of C01-C03/C19 that fails on the async flavour is a C16 violation
    for v in val["violations"]:
        v["detail"]["rule_of"] = v["prop"]
        v["prop"] = "C16"
    st = val["stats"] + [0] * 10
    extra = dict(trace_events=st[0], calls_followed=st[2],
                 exercised=dict(owed_wake=st[3], after_end=st[4], ready_polls=st[5], counts=st[6], lock_waiters_woken=st[7],
                                pending_writers_completed=st[8]),
                 harness_hang=(hrc == 3), exhaustive=False,
                 mc_config="ObsAsync.tla over Obs.tla, NV=3, 2 owners, 2 subscribers, 2 guards, 1 pending future, <= %d operations" % (5 if quick else 6))

    def sig(v):
        s = obs_sig(v)
        s["rule_of"] = v["detail"].get("rule_of")
        return s
    return finish(prop, tier, seed, t0, mc, n, beh, val,
                  "the C01-C03 behaviours (generated from the sync specification Obs.tla) plus behaviours with polls / writer calls issued "
                  "while guards are held (ObsAsync.tla), all executed on new_async objects with every future polled by a hand-rolled executor; "
                  "non-trivial = a writer call followed by a call that hands out a value or polls",
                  obs_nontrivial("C01"), extra,
                  ["with the lock free a future must complete on its first poll (what the specification demands of the flavour)",
                   "at most one waiter is queued on the lock at a time: tokio's queue fairness is not part of the property"],
                  "obs", sig, replay_extra=dict(flavor="async"))


CHECKS["C16"] = async_pipeline
