---------------------------- MODULE TraceAdapters ----------------------------
(***************************************************************************)
(* Trace validation for the adapters layer (eyeball-im-util).              *)
(*                                                                         *)
(* For every pipe the harness logged the initial values handed out by each *)
(* stage and, per poll group, the items that passed each tap (tap 0 = the  *)
(* subscriber stream, tap i = output of stage i).  This module rebuilds    *)
(* every stage's view from exactly those and judges it against             *)
(* Adapters.tla: applicable diffs, the right view at every quiescent point *)
(* (C09-C12), limit respected after every single diff (C15), batches that  *)
(* are non-empty and land on views of source batch boundaries, batched =   *)
(* unbatched for fixed parameters (C13), no lost wake-up (C14).            *)
(* Vector-side calls go through Vec.tla's actions as in TraceVec.          *)
(***************************************************************************)
EXTENDS Adapters, Json, IOUtils, TLCExt

Rec == ndJsonDeserialize(IOEnv.TRACE)

VARIABLES l, poisoned, seen,
          pipes,     \* sequence of [flav, chain, tapped]
          views,     \* [pipe -> sequence of views, one per tap 0..n]
          pset,      \* [pipe -> [stage -> set of parameters the stage may currently use]]
          fin,       \* [pipe -> [stage -> set of parameters acceptable at the next quiescent point]]
          armedP,    \* [pipe -> last poll group ended Pending]
          cum,       \* [pipe -> all top-level diffs so far] (twin comparison)
          lagged,    \* some pipe has received a Reset from the subscriber
          acck,      \* [pipe -> per tap: kinds of the diffs seen since the last quiescent point] (diagnosis only)
          qlen       \* [pipe -> per tap: length of the view at the last quiescent point] (diagnosis only)

avars == <<pipes, views, pset, fin, armedP, cum, lagged, acck, qlen>>
tvars == <<vars, l, poisoned, seen, avars>>

NCounters == 12
Bump(i) == TLCSet(i, TLCGet(i) + 1)
Last(s) == s[Len(s)]

TraceInit ==
    /\ l = 1 /\ poisoned = TRUE /\ seen = {}
    /\ alive = TRUE /\ vals = <<>> /\ cap = 1 /\ fresh = 1
    /\ txn = NoTxn /\ chan = <<>>
    /\ subs = {} /\ sflav = [s \in SubIds |-> "plain"] /\ snext = [s \in SubIds |-> 0]
    /\ srest = [s \in SubIds |-> <<>>]
    /\ replica = [s \in SubIds |-> <<>>] /\ gmsgs = [s \in SubIds |-> <<>>]
    /\ cands = [s \in SubIds |-> {<<0, FALSE>>}]
    /\ armed = [s \in SubIds |-> FALSE] /\ owed = {}
    /\ ret = RNil /\ out = <<>> /\ hist = <<>>
    /\ pipes = <<>> /\ views = <<>> /\ pset = <<>> /\ fin = <<>> /\ armedP = <<>> /\ cum = <<>> /\ lagged = FALSE
    /\ acck = <<>> /\ qlen = <<>>
    /\ \A i \in 1..NCounters : TLCSet(i, 0)

NStagesOf(p) == Len(p.chain)
StageProp(p, i) ==
    IF NStagesOf(p) > 1 THEN "C12"
    ELSE IF p.chain[i].kind \in LimitKinds THEN "C09"
    ELSE IF p.chain[i].kind \in SortKinds THEN "C11" ELSE "C10"

LimitBound(st) == IF st.kind \in {"head", "tail"} /\ st.mode = "static" THEN st.p ELSE -1

(***************************************************************************)
(* Begin: pipes, initial values of every stage                             *)
(***************************************************************************)
RECURSIVE InitViews(_, _, _, _)
(* fills in the views of untapped stages with the ideal view *)
InitViews(p, inits, i, acc) ==
    IF i > NStagesOf(p) THEN acc
    ELSE LET st == p.chain[i]
             v  == IF p.tapped[i + 1] = 1 THEN inits[i + 1] ELSE ExpView(st, ParamInit(st), acc[i])
         IN InitViews(p, inits, i + 1, Append(acc, v))

InitFailures(e) ==
    UNION {
      LET p == e.pipes[s]  vw == InitViews(p, p.inits, 1, <<p.inits[1]>>) IN
        (IF p.inits[1] # e.init THEN {<<"C05", "snapshot", s, 0>>} ELSE {})
        \cup UNION {
             LET st == p.chain[i] IN
               (IF p.tapped[i + 1] = 1 /\ ~ViewOk(st, ParamInit(st), vw[i], vw[i + 1])
                THEN {<<StageProp(p, i), "init-view", s, i>>} ELSE {})
               \cup (IF p.tapped[i + 1] = 1 /\ LimitBound(st) >= 0 /\ Len(vw[i + 1]) > LimitBound(st)
                     THEN {<<"C15", "init-exceeds-limit", s, i>>} ELSE {})
             : i \in 1..NStagesOf(p)}
      : s \in 1..Len(e.pipes)}

DoBegin(e) ==
    /\ alive' = TRUE /\ vals' = e.init /\ cap' = e.cap /\ fresh' = Len(e.init) + 1
    /\ txn' = NoTxn /\ chan' = <<>>
    /\ subs' = 1..Len(e.pipes)
    /\ sflav' = [s \in SubIds |-> IF s <= Len(e.pipes) THEN e.pipes[s].flav ELSE "plain"]
    /\ snext' = [s \in SubIds |-> 0] /\ srest' = [s \in SubIds |-> <<>>]
    /\ replica' = [s \in SubIds |-> e.init] /\ gmsgs' = [s \in SubIds |-> <<>>]
    /\ cands' = [s \in SubIds |-> {<<0, FALSE>>}]
    /\ armed' = [s \in SubIds |-> FALSE] /\ owed' = {}
    /\ ret' = RNil /\ out' = <<>> /\ hist' = <<>>
    /\ pipes' = e.pipes
    /\ IF e.ok = 1
       THEN /\ views' = [s \in 1..Len(e.pipes) |-> InitViews(e.pipes[s], e.pipes[s].inits, 1, <<e.pipes[s].inits[1]>>)]
            /\ LET fails == InitFailures(e) IN
                 /\ \A f \in fails : PrintT(<<"V", e.run, l, f[1], f[2],
                        ToJson([op |-> "Begin", pipe |-> f[3], stage |-> f[4], pipes |-> e.pipes, init |-> e.init])>>)
                 /\ seen' = {f[1] : f \in fails}
                 /\ poisoned' = (fails # {})
       ELSE /\ views' = <<>>
            /\ PrintT(<<"V", e.run, l, StageProp(e.pipes[1], 1), "panic-in-constructor",
                        ToJson([op |-> "Begin", pipes |-> e.pipes, init |-> e.init])>>)
            /\ seen' = {} /\ poisoned' = TRUE
    /\ pset' = [s \in 1..Len(e.pipes) |-> [i \in 1..NStagesOf(e.pipes[s]) |-> {ParamInit(e.pipes[s].chain[i])}]]
    /\ fin' = [s \in 1..Len(e.pipes) |-> [i \in 1..NStagesOf(e.pipes[s]) |-> {ParamInit(e.pipes[s].chain[i])}]]
    /\ armedP' = [s \in 1..Len(e.pipes) |-> FALSE]
    /\ cum' = [s \in 1..Len(e.pipes) |-> <<>>]
    /\ lagged' = FALSE
    /\ acck' = [s \in 1..Len(e.pipes) |-> [i \in 1..(NStagesOf(e.pipes[s]) + 1) |-> <<>>]]
    /\ qlen' = [s \in 1..Len(e.pipes) |-> [i \in 1..(NStagesOf(e.pipes[s]) + 1) |->
                    IF e.ok = 1 /\ i <= Len(e.pipes[s].inits) THEN Len(e.pipes[s].inits[i]) ELSE 0]]
    /\ Bump(1)

(***************************************************************************)
(* Vector-side calls (as in TraceVec)                                      *)
(***************************************************************************)
VecAction(e) ==
    \/ e.op = "PushBack" /\ PushBack(e.t, e.v)
    \/ e.op = "PushFront" /\ PushFront(e.t, e.v)
    \/ e.op = "PopBack" /\ PopBack(e.t)
    \/ e.op = "PopFront" /\ PopFront(e.t)
    \/ e.op = "Insert" /\ Insert(e.t, e.i, e.v)
    \/ e.op = "Set" /\ SetAt(e.t, e.i, e.v, "Set")
    \/ e.op = "Remove" /\ RemoveIdx(e.t, e.i, "Remove")
    \/ e.op = "Truncate" /\ Truncate(e.t, e.i)
    \/ e.op = "Clear" /\ Clear(e.t)
    \/ e.op = "Append" /\ AppendK(e.t, Len(e.vs))
    \/ e.op = "Entries" /\ Entries(e.t, e.i, e.vs)
    \/ e.op = "TxnBegin" /\ TxnBegin
    \/ e.op = "TxnCommit" /\ TxnCommit
    \/ e.op = "TxnRollback" /\ TxnRollback
    \/ e.op = "TxnDrop" /\ TxnDrop
    \/ e.op = "DropVector" /\ DropVector

DoVecOp(e) ==
    /\ VecAction(e)
    /\ LET bad == ~(e.ret.t = ret'.t /\ e.ret.v = ret'.v /\ e.ret.vs = ret'.vs) \/ (alive' /\ e.contents # vals') IN
         /\ (bad /\ "C17" \notin seen) =>
               PrintT(<<"V", e.run, l, "C17", "vector-op", ToJson([op |-> e.op, got |-> e.ret, contents |-> e.contents, vals |-> vals'])>>)
         /\ seen' = IF bad THEN seen \cup {"C17"} ELSE seen
         /\ poisoned' = bad
    /\ UNCHANGED avars
    /\ Bump(2)

DoLimit(e) ==
    /\ pset' = [pset EXCEPT ![e.s][e.i] = @ \cup {e.v}]
    /\ fin' = [fin EXCEPT ![e.s][e.i] = {e.v}]
    /\ UNCHANGED <<vars, pipes, views, armedP, cum, lagged, acck, qlen, poisoned, seen>>
    /\ Bump(2) /\ Bump(10)

(* the limit observable is dropped: a value set but not yet polled may be lost *)
DoLimitDrop(e) ==
    /\ fin' = [fin EXCEPT ![e.s][e.i] = pset[e.s][e.i]]
    /\ UNCHANGED <<vars, pipes, views, pset, armedP, cum, lagged, acck, qlen, poisoned, seen>>
    /\ Bump(2)

DoDropPipe(e) ==
    /\ DropSub(e.s)
    /\ UNCHANGED <<avars, poisoned, seen>>
    /\ Bump(2)

(***************************************************************************)
(* Poll of a pipe                                                          *)
(***************************************************************************)
RECURSIVE Flatten(_)
Flatten(bs) == IF bs = <<>> THEN <<>> ELSE Head(bs) \o Flatten(Tail(bs))

(* apply diffs one by one: [v, bad] with bad in {"", "inapplicable", "exceeds-limit"} *)
RECURSIVE RunDiffs(_, _, _)
RunDiffs(v, ds, bnd) ==
    IF ds = <<>> THEN [v |-> v, bad |-> ""]
    ELSE IF ~Applicable(Head(ds), v) THEN [v |-> v, bad |-> "inapplicable"]
    ELSE LET v2 == Apply(Head(ds), v) IN
         IF bnd >= 0 /\ Len(v2) > bnd THEN [v |-> v2, bad |-> "exceeds-limit"]
         ELSE RunDiffs(v2, Tail(ds), bnd)

(* states after each batch (stops at the first bad diff) *)
RECURSIVE BatchStates(_, _, _, _)
BatchStates(v, bs, bnd, acc) ==
    IF bs = <<>> THEN [states |-> acc, bad |-> ""]
    ELSE LET r == RunDiffs(v, Head(bs), bnd) IN
         IF r.bad # "" THEN [states |-> Append(acc, r.v), bad |-> r.bad]
         ELSE BatchStates(r.v, Tail(bs), bnd, Append(acc, r.v))

SeqToSet(s) == {s[j] : j \in 1..Len(s)}
RECURSIVE SetToSeqAny(_)
SetToSeqAny(S) == IF S = {} THEN <<>> ELSE LET x == CHOOSE y \in S : TRUE IN <<x>> \o SetToSeqAny(S \ {x})

(* one stage in one poll group.                                             *)
(* inStates: input view at the start of the group followed by the input     *)
(* view after each input batch.  inFinals: the set of views the input may   *)
(* have now (a singleton unless an untapped stage with an ambiguous         *)
(* parameter sits below).  Returns [states, finals, fails].                 *)
StageRun(p, s, i, taps, inStates, inFinals, quiescent) ==
    LET st   == p.chain[i]
        v0   == views[s][i + 1]
        ps   == pset[s][i]
        fn   == fin[s][i]
        prop == StageProp(p, i)
    IN IF p.tapped[i + 1] = 0
       THEN (* untapped (self-observed) stage: its view is by definition an ideal one *)
            LET news == UNION {{ExpView(st, q, inStates[j]) : q \in ps \cup fn} : j \in 1..Len(inStates)}
                finals == {ExpView(st, q, f) : q \in fn, f \in inFinals}
                rep == CHOOSE f \in finals : TRUE
            IN [states |-> SetToSeqAny(news \cup finals) \o <<rep>>, finals |-> finals, fails |-> {}]
       ELSE
       LET bs == BatchStates(v0, taps[i + 1], LimitBound(st), <<>>)
           outStates == <<v0>> \o bs.states
           f1 == IF bs.bad = "inapplicable" THEN {<<prop, "inapplicable", i>>}
                 ELSE IF bs.bad = "exceeds-limit" THEN {<<"C15", "exceeds-limit", i>>} ELSE {}
           f2 == IF p.flav = "batched" /\ \E b \in 1..Len(taps[i + 1]) : taps[i + 1][b] = <<>>
                 THEN {<<"C13", "empty-batch", i>>} ELSE {}
           f3 == IF p.flav = "batched" /\ bs.bad = "" /\
                    \E b \in 1..Len(bs.states) :
                        ~\E inp \in SeqToSet(inStates) \cup inFinals, q \in ps \cup fn : ViewOk(st, q, inp, bs.states[b])
                 THEN {<<"C13", "batch-view-not-a-boundary-view", i>>} ELSE {}
           f4 == IF quiescent /\ bs.bad = "" /\ ~\E q \in fn, f \in inFinals : ViewOk(st, q, f, Last(outStates))
                 THEN {<<prop, "view", i>>} ELSE {}
       IN [states |-> outStates, finals |-> {Last(outStates)}, fails |-> f1 \cup f2 \cup f3 \cup f4]

RECURSIVE ChainRun(_, _, _, _, _, _, _, _, _)
ChainRun(p, s, i, taps, inStates, inFinals, quiescent, accViews, accFails) ==
    IF i > NStagesOf(p) THEN [views |-> accViews, fails |-> accFails]
    ELSE LET r == StageRun(p, s, i, taps, inStates, inFinals, quiescent) IN
         ChainRun(p, s, i + 1, taps, r.states, r.finals, quiescent, Append(accViews, Last(r.states)), accFails \cup r.fails)

IsPrefixOf(a, b) == Len(a) <= Len(b) /\ SubSeq(b, 1, Len(a)) = a

KindsOf(ds) == [j \in 1..Len(ds) |-> ds[j].k]

DoPoll(e) ==
    LET s  == e.s
        p  == pipes[s]
        quiescent == e.ret.t \in {"Pending", "End"}
        (* tap 0: the subscriber stream, judged as in TraceVec *)
        g1 == AcceptItems(GOf(s), e.taps[1], sflav[s], vals, cap)
        g2 == IF quiescent THEN AcceptSync(g1, vals, cap) ELSE g1
        t0 == BatchStates(replica[s], e.taps[1], -1, <<>>)
        in0 == <<replica[s]>> \o t0.states
        cr == ChainRun(p, s, 1, e.taps, in0, {Last(in0)}, quiescent, <<g2.rep>>, {})
        top == Flatten(e.taps[Len(e.taps)])
        sawReset == \E j \in 1..Len(Flatten(e.taps[1])) : Flatten(e.taps[1])[j].k = "Reset"
        cum2 == [cum EXCEPT ![s] = @ \o top]
        allFixed == \A i \in 1..NStagesOf(p) : FixedParam(p.chain[i])
        twinBad == /\ Len(pipes) = 2 /\ allFixed /\ ~lagged /\ ~sawReset
                   /\ ~(IsPrefixOf(cum2[1], cum2[2]) \/ IsPrefixOf(cum2[2], cum2[1]))
        srcBad == IF g2.bad = "" THEN {} ELSE {<<IF Len(gmsgs[s]) > cap THEN "C06" ELSE "C05", g2.bad, 0>>}
        endBad == IF e.ret.t = "End" /\ alive THEN {<<StageProp(p, 1), "end-while-alive", 0>>}
                  ELSE IF e.ret.t = "Pending" /\ ~alive THEN {<<StageProp(p, 1), "pending-after-drop", 0>>}
                  ELSE IF e.ret.t = "Panic" THEN (IF cr.fails = {} THEN {<<StageProp(p, 1), "panic-in-poll", 0>>} ELSE {})
                  ELSE IF e.ret.t \notin {"End", "Pending", "More"} THEN {<<StageProp(p, 1), e.ret.t, 0>>}
                  ELSE {}
        wakeBad == IF armedP[s] /\ (top # <<>> \/ e.ret.t = "End") /\ e.wk # 1 THEN {<<"C14", "lost-wake", 0>>} ELSE {}
        twinF == IF twinBad THEN {<<"C13", "batched-differs-from-unbatched", 0>>} ELSE {}
        (* report the root cause only: failures of the lowest failing stage (data flows upwards, later stages
           and pipe-level clauses may fail as a consequence); pipe-level clauses only when every stage is fine *)
        stageFails == IF srcBad = {} THEN cr.fails ELSE {}
        minStage == IF stageFails = {} THEN 0 ELSE CHOOSE m \in {f[3] : f \in stageFails} : \A f \in stageFails : m <= f[3]
        fails == IF srcBad # {} THEN srcBad
                 ELSE IF stageFails # {} THEN {f \in stageFails : f[3] = minStage}
                 ELSE endBad \cup wakeBad \cup twinF
        acc2 == [i \in 1..Len(e.taps) |-> acck[s][i] \o KindsOf(Flatten(e.taps[i]))]
    IN /\ \A f \in fails : (f[1] \notin seen) =>
            PrintT(<<"V", e.run, l, f[1], f[2],
                ToJson([op |-> "Poll", pipe |-> s, stage |-> f[3], flav |-> p.flav, chain |-> p.chain, k |-> e.k,
                        end |-> e.ret.t, wk |-> e.wk, taps |-> e.taps, views |-> views[s], newviews |-> cr.views,
                        pset |-> [i \in 1..NStagesOf(p) |-> pset[s][i]], fin |-> [i \in 1..NStagesOf(p) |-> fin[s][i]],
                        vals |-> vals, alive |-> alive, cap |-> cap,
                        inkinds |-> IF f[3] >= 1 THEN acc2[f[3]] ELSE <<>>,
                        outkinds |-> IF f[3] >= 1 THEN acc2[f[3] + 1] ELSE <<>>,
                        inlen |-> IF f[3] >= 1 THEN qlen[s][f[3]] ELSE 0])>>)
       /\ seen' = seen \cup {f[1] : f \in fails}
       /\ poisoned' = (fails # {} \/ e.ret.t = "Panic")
       /\ replica' = [replica EXCEPT ![s] = g2.rep]
       /\ gmsgs' = [gmsgs EXCEPT ![s] = g2.msgs]
       /\ cands' = [cands EXCEPT ![s] = g2.cands]
       /\ armed' = [armed EXCEPT ![s] = (e.ret.t = "Pending")]
       /\ owed' = owed \ {s}
       /\ views' = [views EXCEPT ![s] = cr.views]
       /\ pset' = [pset EXCEPT ![s] = IF quiescent THEN fin[s] ELSE @]
       /\ armedP' = [armedP EXCEPT ![s] = (e.ret.t = "Pending")]
       /\ cum' = cum2
       /\ lagged' = (lagged \/ sawReset)
       /\ acck' = [acck EXCEPT ![s] = IF quiescent THEN [i \in 1..Len(e.taps) |-> <<>>] ELSE acc2]
       /\ qlen' = [qlen EXCEPT ![s] = IF quiescent THEN [i \in 1..Len(e.taps) |-> Len(cr.views[i])] ELSE @]
       /\ UNCHANGED <<alive, vals, cap, fresh, txn, chan, subs, sflav, snext, srest, ret, out, hist, pipes, fin>>
       /\ Bump(2)
       /\ (top # <<>> => Bump(3))
       /\ (sawReset => Bump(4))
       /\ (e.ret.t = "End" => Bump(6))
       /\ (armedP[s] /\ (top # <<>> \/ e.ret.t = "End") => Bump(7))
       /\ (quiescent => Bump(8))
       /\ (Len(pipes) = 2 /\ allFixed /\ ~lagged /\ ~sawReset /\ top # <<>> => Bump(9))
       /\ ((\E i \in 1..NStagesOf(p) : LimitBound(p.chain[i]) >= 0 /\ e.taps[i + 1] # <<>>) => Bump(11))
       /\ (p.flav = "batched" /\ top # <<>> => Bump(12))

DoPanicPoll(e) ==
    /\ PrintT(<<"V", e.run, l, StageProp(pipes[e.s], 1), "panic-in-poll",
                ToJson([op |-> "Poll", pipe |-> e.s, stage |-> 0, flav |-> pipes[e.s].flav, chain |-> pipes[e.s].chain, k |-> e.k])>>)
    /\ poisoned' = TRUE
    /\ UNCHANGED <<vars, seen, avars>>

Skip == UNCHANGED <<vars, poisoned, seen, avars>>

TraceNext ==
    /\ l <= Len(Rec)
    /\ l' = l + 1
    /\ LET e == Rec[l] IN
         IF e.e = "Begin" THEN DoBegin(e)
         ELSE IF poisoned \/ e.e # "Op" THEN Skip
         ELSE IF e.op = "Poll" /\ e.ret.t = "Panic" /\ e.taps = <<>> THEN DoPanicPoll(e)
         ELSE IF e.op = "Poll" THEN DoPoll(e)
         ELSE IF e.op = "Limit" THEN DoLimit(e)
         ELSE IF e.op = "LimitDrop" THEN DoLimitDrop(e)
         ELSE IF e.op = "DropPipe" THEN DoDropPipe(e)
         ELSE DoVecOp(e)

TraceSpec == TraceInit /\ [][TraceNext]_tvars

TraceAccepted ==
    LET d == TLCGet("stats").diameter IN
    IF d - 1 = Len(Rec)
    THEN PrintT(<<"STATS", ToJson(<<Len(Rec), TLCGet(1), TLCGet(2), TLCGet(3), TLCGet(4), TLCGet(5), TLCGet(6), TLCGet(7), TLCGet(8), TLCGet(9), TLCGet(10), TLCGet(11), TLCGet(12)>>)>>)
    ELSE /\ PrintT(<<"STUCK", d, IF d <= Len(Rec) THEN ToJson(Rec[d]) ELSE "eof">>)
         /\ FALSE
=============================================================================
