----------------------------- MODULE TraceTokens -----------------------------
(* C20: judge the construction / clone / use / drop events recorded by the  *)
(* instrumented element type while the layer drivers ran (any layer).       *)
EXTENDS Tokens, TLC, Json, IOUtils, TLCExt
Rec == ndJsonDeserialize(IOEnv.TRACE)
VARIABLES l, live, poisoned
Bump(i) == TLCSet(i, TLCGet(i) + 1)
Add(i, n) == TLCSet(i, TLCGet(i) + n)

TraceInit == l = 1 /\ live = {} /\ poisoned = TRUE /\ TLCSet(1, 0) /\ TLCSet(2, 0) /\ TLCSet(3, 0) /\ TLCSet(4, 0)

HasTok(e) == "tok" \in DOMAIN e

TraceNext ==
    /\ l <= Len(Rec) /\ l' = l + 1
    /\ LET e == Rec[l] IN
       IF e.e = "Begin" THEN live' = {} /\ poisoned' = FALSE /\ Bump(1)
       ELSE IF poisoned \/ ~HasTok(e) THEN UNCHANGED <<live, poisoned>>
       ELSE LET r == Fold(live, e.tok, 1) IN
            /\ live' = r.live
            /\ Add(2, Len(e.tok))
            /\ IF r.bad # ""
               THEN /\ PrintT(<<"V", e.run, l, "C20", r.bad,
                          ToJson([at |-> r.at, ev |-> e.tok[r.at], op |-> IF "op" \in DOMAIN e THEN e.op ELSE e.e])>>)
                    /\ poisoned' = TRUE
               ELSE IF e.e = "EndRun" /\ r.live # {}
               THEN /\ PrintT(<<"V", e.run, l, "C20", "leak", ToJson([leaked |-> r.live, n |-> Cardinality(r.live), op |-> "EndRun"])>>)
                    /\ poisoned' = TRUE
               ELSE IF e.e = "EndRun" /\ e.ok # 1
               THEN /\ PrintT(<<"V", e.run, l, "C20", "panic-in-teardown", ToJson([op |-> "EndRun"])>>)
                    /\ poisoned' = TRUE
               ELSE /\ poisoned' = FALSE
                    /\ (e.e = "EndRun" => Bump(3))
TraceSpec == TraceInit /\ [][TraceNext]_<<l, live, poisoned>>
TraceAccepted ==
    LET d == TLCGet("stats").diameter IN
    IF d - 1 = Len(Rec) THEN PrintT(<<"STATS", ToJson(<<Len(Rec), TLCGet(1), TLCGet(2), TLCGet(3)>>)>>)
    ELSE PrintT(<<"STUCK", d>>) /\ FALSE
=============================================================================
