"""Convert ObsConc schedules (programs + thread order) into threaded-driver inputs."""
import json


def to_hist(progs, choice):
    h = [{"op": "New", "h": 1, "a": 0, "b": 0 if choice == "uniq" else 1, "n": 0}]
    if choice == "uniq":
        h.append({"op": "Subscribe", "h": 1, "a": 0, "b": 0, "n": 2})
    elif choice == "dropup":
        h.append({"op": "Downgrade", "h": 1, "a": 0, "b": 0, "n": 2})
    else:
        h.append({"op": "CloneOwner", "h": 1, "a": 0, "b": 0, "n": 2})
    h.append({"op": "Subscribe", "h": 1, "a": 0, "b": 0, "n": 3})
    h.append({"op": "Go", "h": 0, "a": 0, "b": 0, "n": 0})
    for t, p in enumerate(progs, start=1):
        for k, op in enumerate(p):
            h.append({"op": op, "h": t, "a": 100 * t + k + 1 if op in ("Set", "GSet") else 0, "b": 0, "n": 0})
    return h


def convert(user_out, dst, choice, limit=None):
    n = 0
    with open(user_out) as f, open(dst, "a") as o:
        for line in f:
            if line.startswith('<<"B", '):
                d = json.loads(json.loads(line.strip()[7:-2]))
                o.write(json.dumps({"hist": to_hist(d["progs"], choice), "sched": d["sched"]}) + "\n")
                n += 1
                if limit and n >= limit:
                    break
    return n
