//! Replayer for the `adapters` layer (crate `eyeball-im-util`).
//!
//! A run has one ObservableVector (`vec::Source`) and up to a few "pipes":
//! a subscriber (plain or batched) followed by a chain of adapters.  Between
//! the stages sit transparent taps that log what passes.  Dynamic limits /
//! counts are driven through `eyeball::Observable<usize>` subscribers.
//!
//! Behaviour: first record `{op:"New", i:cap, vs:[initial contents], pipes:[{flav, chain:[{kind,mode,p,self}]}]}`
//! then records `{op,t,s,i,v,vs,k}`; adapter-specific ops: `Limit` (s = pipe, i = stage, v = value),
//! `LimitDrop`, `Poll` (s = pipe, k = budget), `DropPipe`.

use std::{
    cell::RefCell,
    collections::BTreeMap,
    pin::Pin,
    rc::Rc,
    sync::Arc,
    task::{Context, Poll},
};

use eyeball::{Observable, Subscriber};
use eyeball_im::VectorDiff;
use eyeball_im_util::vector::{VectorObserver, VectorObserverExt, VectorSubscriberExt};
use futures_core::Stream;
use imbl::Vector;
use serde_json::{json, Value};

use crate::{
    util::*,
    vec::{diff_json, poll_group, rv, set_fresh, Source},
};

type TapLog = Rc<RefCell<Vec<Vec<Value>>>>;
/// Late stacking: poll a purely dynamic adapter (whose limit was just announced) until it is Pending,
/// discarding what it emits, before it is used as the observer of the next stage.
fn settle<A: Stream + Unpin>(mut a: A, late: bool) -> A {
    if late {
        let w = std::task::Waker::from(Flag::new());
        let mut cx = std::task::Context::from_waker(&w);
        let mut n = 0;
        while let std::task::Poll::Ready(Some(_)) = Pin::new(&mut a).poll_next(&mut cx) {
            n += 1;
            assert!(n < 10_000, "harness: late-stacked adapter never settles");
        }
    }
    a
}

type Limits = BTreeMap<i64, Observable<usize>>;

#[derive(Clone, Debug)]
struct Stage {
    kind: String,
    mode: String, // static | dyn | dyninit (head/tail/skip only)
    p: usize,
    selfobs: bool, // the NEXT stage is built from this adapter itself (purely dynamic only)
}

fn parse_chain(v: &Value) -> Vec<Stage> {
    v.as_array()
        .map(|a| {
            a.iter()
                .map(|s| Stage {
                    kind: gets(s, "kind").to_string(),
                    mode: gets(s, "mode").to_string(),
                    p: geti(s, "p") as usize,
                    selfobs: geti(s, "self") != 0,
                })
                .collect()
        })
        .unwrap_or_default()
}

fn keep(e: &Elem) -> bool {
    e.v.rem_euclid(2) == 1
}
fn fmap(e: Elem) -> Option<Elem> {
    if e.v.rem_euclid(3) != 0 {
        Some(Elem::new(e.v + 100))
    } else {
        None
    }
}

/// Transparent stream wrapper that logs every item passing through.
struct Tap<I> {
    inner: Pin<Box<dyn Stream<Item = I>>>,
    log: TapLog,
    idx: usize,
    to_batch: fn(&I) -> Value,
}

impl<I> Stream for Tap<I> {
    type Item = I;
    fn poll_next(mut self: Pin<&mut Self>, cx: &mut Context<'_>) -> Poll<Option<I>> {
        let r = self.inner.as_mut().poll_next(cx);
        if let Poll::Ready(Some(it)) = &r {
            let b = (self.to_batch)(it);
            let idx = self.idx;
            self.log.borrow_mut()[idx].push(b);
        }
        r
    }
}
impl<I> Unpin for Tap<I> {}

macro_rules! impl_chain {
    ($modname:ident, $item:ty, $to_batch:expr) => {
        mod $modname {
            use super::*;
            pub type BoxS = Pin<Box<dyn Stream<Item = $item>>>;

            pub fn to_batch(it: &$item) -> Value {
                let f: fn(&$item) -> Value = $to_batch;
                f(it)
            }

            fn tap(s: impl Stream<Item = $item> + 'static, log: &TapLog, idx: usize) -> BoxS {
                Box::pin(Tap { inner: Box::pin(s), log: log.clone(), idx, to_batch })
            }

            fn limit_stream(limits: &mut Limits, key: i64, init: usize) -> Subscriber<usize> {
                let ob = Observable::new(init);
                let sub = Observable::subscribe(&ob);
                limits.insert(key, ob);
                sub
            }

            /// Apply one non-self-observed stage to any observer; result is tapped and boxed.
            fn one_stage_noself<O>(o: O, st: &Stage, idx: usize, log: &TapLog, limits: &mut Limits,
                                   inits: &mut Vec<Value>) -> (Vector<Elem>, BoxS)
            where
                O: VectorObserver<Elem>,
                O::Stream: Stream<Item = $item> + 'static,
            {
                let key = idx as i64;
                let (v, s): (Vector<Elem>, BoxS) = match (st.kind.as_str(), st.mode.as_str()) {
                    ("head", "static") => { let (v, s) = o.head(st.p); (v, tap(s, log, idx)) }
                    ("head", "dyninit") => {
                        let l = limit_stream(limits, key, st.p);
                        let (v, s) = o.dynamic_head_with_initial_value(st.p, l); (v, tap(s, log, idx)) }
                    ("head", _) => { let l = limit_stream(limits, key, 0); (Vector::new(), tap(o.dynamic_head(l), log, idx)) }
                    ("tail", "static") => { let (v, s) = o.tail(st.p); (v, tap(s, log, idx)) }
                    ("tail", "dyninit") => {
                        let l = limit_stream(limits, key, st.p);
                        let (v, s) = o.dynamic_tail_with_initial_value(st.p, l); (v, tap(s, log, idx)) }
                    ("tail", _) => { let l = limit_stream(limits, key, 0); (Vector::new(), tap(o.dynamic_tail(l), log, idx)) }
                    ("skip", "static") => { let (v, s) = o.skip(st.p); (v, tap(s, log, idx)) }
                    ("skip", "dyninit") => {
                        let l = limit_stream(limits, key, st.p);
                        let (v, s) = o.dynamic_skip_with_initial_count(st.p, l); (v, tap(s, log, idx)) }
                    ("skip", _) => { let l = limit_stream(limits, key, 0); (Vector::new(), tap(o.dynamic_skip(l), log, idx)) }
                    ("filter", _) => { let (v, s) = o.filter(keep); (v, tap(s, log, idx)) }
                    ("filter_map", _) => { let (v, s) = o.filter_map(fmap); (v, tap(s, log, idx)) }
                    ("sort", _) => { let (v, s) = o.sort(); (v, tap(s, log, idx)) }
                    ("sort_by", _) => {
                        let (v, s) = o.sort_by(|a: &Elem, b: &Elem| (b.v.rem_euclid(4)).cmp(&a.v.rem_euclid(4)));
                        (v, tap(s, log, idx)) }
                    ("sort_by_key", _) => { let (v, s) = o.sort_by_key(|e: &Elem| e.v.rem_euclid(3)); (v, tap(s, log, idx)) }
                    (k, m) => panic!("harness: unknown stage {k}/{m}"),
                };
                while inits.len() <= idx { inits.push(Value::Null); }
                inits[idx] = seq_json(v.iter());
                (v, s)
            }

            /// Build stages `chain[from..]` on top of `(vals, stream)`; stage i logs to tap i (1-based).
            pub fn build(vals: Vector<Elem>, stream: BoxS, chain: &[Stage], log: &TapLog, limits: &mut Limits,
                         inits: &mut Vec<Value>) -> BoxS {
                let mut cur: (Vector<Elem>, BoxS) = (vals, stream);
                let mut i = 0;
                while i < chain.len() {
                    let st = &chain[i];
                    let idx = i + 1;
                    if st.selfobs && (st.mode == "dyn" || st.mode == "dyninit") && i + 1 < chain.len() {
                        // the adapter itself is the observer of the next stage: no tap in between
                        let key = idx as i64;
                        let l = limit_stream(limits, key, 0);
                        let nxt = &chain[i + 1];
                        while inits.len() <= idx { inits.push(Value::Null); }
                        inits[idx] = Value::Null;
                        // mode "dyninit" + self: late stacking. The purely dynamic adapter is first polled with
                        // its limit p announced (its own output goes nowhere), and only then handed over.
                        let late = st.mode == "dyninit";
                        if late {
                            Observable::set(limits.get_mut(&key).expect("limit just inserted"), st.p);
                        }
                        cur = match st.kind.as_str() {
                            "head" => one_stage_noself(settle(cur.dynamic_head(l), late), nxt, idx + 1, log, limits, inits),
                            "tail" => one_stage_noself(settle(cur.dynamic_tail(l), late), nxt, idx + 1, log, limits, inits),
                            "skip" => one_stage_noself(settle(cur.dynamic_skip(l), late), nxt, idx + 1, log, limits, inits),
                            k => panic!("harness: stage {k} cannot be its own observer"),
                        };
                        i += 2;
                    } else {
                        cur = one_stage_noself(cur, st, idx, log, limits, inits);
                        i += 1;
                    }
                }
                cur.1
            }
        }
    };
}

impl_chain!(plain, VectorDiff<Elem>, |d| json!([diff_json(d)]));
impl_chain!(batched, Vec<VectorDiff<Elem>>, |b| Value::Array(b.iter().map(diff_json).collect()));

enum PipeStream {
    Plain(plain::BoxS),
    Batched(batched::BoxS),
}

struct Pipe {
    stream: PipeStream,
    log: TapLog,
    limits: Limits,
    flag: Option<Arc<Flag>>,
    own: Arc<Flag>,
    ntaps: usize,
}

#[derive(Default)]
struct Ctx {
    pipes: BTreeMap<i64, Pipe>,
    reuse_wakers: bool,
    src: Source,
}

fn make_pipe(src: &Source, desc: &Value) -> (Pipe, Value) {
    let chain = parse_chain(&desc["chain"]);
    let flav_batched = gets(desc, "flav") == "batched";
    let ntaps = chain.len() + 1;
    let log: TapLog = Rc::new(RefCell::new(vec![Vec::new(); ntaps]));
    let mut limits = Limits::new();
    let mut inits: Vec<Value> = Vec::new();
    let sub = src.vec.as_ref().expect("vec").subscribe();
    let stream = if flav_batched {
        let (vals, st) = sub.batched().into_parts();
        inits.push(seq_json(vals.iter()));
        let t0: batched::BoxS = Box::pin(Tap { inner: Box::pin(st), log: log.clone(), idx: 0, to_batch: batched::to_batch });
        PipeStream::Batched(batched::build(vals, t0, &chain, &log, &mut limits, &mut inits))
    } else {
        let (vals, st) = sub.into_values_and_stream();
        inits.push(seq_json(vals.iter()));
        let t0: plain::BoxS = Box::pin(Tap { inner: Box::pin(st), log: log.clone(), idx: 0, to_batch: plain::to_batch });
        PipeStream::Plain(plain::build(vals, t0, &chain, &log, &mut limits, &mut inits))
    };
    while inits.len() < ntaps {
        inits.push(Value::Null);
    }
    // untapped boundaries are logged as [] with a marker list
    let tapped: Vec<i64> = inits.iter().map(|v| if v.is_null() { 0 } else { 1 }).collect();
    let inits: Vec<Value> = inits.into_iter().map(|v| if v.is_null() { json!([]) } else { v }).collect();
    (Pipe { stream, log, limits, flag: None, own: Flag::new(), ntaps }, json!({"inits": inits, "tapped": tapped}))
}

impl Ctx {
    fn exec(&mut self, o: &Value, ev: &mut Value) -> Value {
        let op = gets(o, "op");
        let s = geti(o, "s");
        let i = geti(o, "i");
        let v = geti(o, "v");
        let k = geti(o, "k");
        let nil = || rv("Nil", 0, json!([]));
        match op {
            "Limit" => {
                let p = self.pipes.get_mut(&s).expect("pipe");
                let ob = p.limits.get_mut(&i).expect("limit observable");
                Observable::set(ob, v as usize);
                nil()
            }
            "LimitDrop" => {
                let p = self.pipes.get_mut(&s).expect("pipe");
                drop(p.limits.remove(&i).expect("limit observable"));
                nil()
            }
            "DropPipe" => {
                drop(self.pipes.remove(&s).expect("pipe"));
                nil()
            }
            "Poll" => {
                let p = self.pipes.get_mut(&s).expect("pipe");
                let wk = p.flag.as_ref().map(|f| f.is_set());
                let flag = if self.reuse_wakers { p.own.clone() } else { Flag::new() };
                flag.clear();
                let waker = waker_of(&flag);
                let mut cx = Context::from_waker(&waker);
                for t in p.log.borrow_mut().iter_mut() {
                    t.clear();
                }
                // a panic inside a poll is data: keep what the taps saw up to it
                let polled = catch(|| match &mut p.stream {
                    PipeStream::Plain(st) => poll_group(st, k, &mut cx, |_| Value::Null),
                    PipeStream::Batched(st) => poll_group(st, k, &mut cx, |_| Value::Null),
                });
                let end = match &polled {
                    Ok((_, end)) => *end,
                    Err(_) => "Panic",
                };
                p.flag = if end == "Pending" { Some(flag) } else { None };
                let taps: Vec<Value> = p.log.borrow().iter().map(|t| Value::Array(t.clone())).collect();
                debug_assert_eq!(taps.len(), p.ntaps);
                ev["taps"] = Value::Array(taps);
                ev["wk"] = json!(match wk { Some(true) => 1, Some(false) => 0, None => -1 });
                rv(end, 0, json!([]))
            }
            _ => self.src.exec(o).unwrap_or_else(|| panic!("harness: unknown adapters op {op}")),
        }
    }
}

pub fn run_behaviour(tr: &Tracer, run: i64, ops: &[Value]) {
    let first = &ops[0];
    assert_eq!(gets(first, "op"), "New");
    let cap = geti(first, "i");
    let init = getvs(first, "vs");
    set_fresh(1);
    // driver policy (field v of the first record): bit 0 = poll a pipe always with the same waker
    let mut cx = Ctx { src: Source::new(cap, false), reuse_wakers: geti(first, "v") & 1 != 0, ..Default::default() };
    if !init.is_empty() {
        cx.src.vec.as_mut().unwrap().append(init.iter().map(|v| Elem::new(*v)).collect());
    }
    let mut pipes_ev = Vec::new();
    let pipes = first["pipes"].as_array().cloned().unwrap_or_default();
    let mut setup_ok = true;
    for (j, pd) in pipes.iter().enumerate() {
        match catch(|| make_pipe(&cx.src, pd)) {
            Ok((p, info)) => {
                cx.pipes.insert(j as i64 + 1, p);
                pipes_ev.push(json!({"flav": pd["flav"], "chain": pd["chain"], "inits": info["inits"], "tapped": info["tapped"]}));
            }
            Err(_) => {
                setup_ok = false;
                pipes_ev.push(json!({"flav": pd["flav"], "chain": pd["chain"], "inits": [], "tapped": [], "panic": 1}));
            }
        }
    }
    tr.emit(&json!({"e": "Begin", "run": run, "layer": "adapters", "cap": cap, "init": init, "pipes": pipes_ev,
                    "ok": if setup_ok {1} else {0}}));
    if setup_ok {
        for o in &ops[1..] {
            let mut ev = json!({"e": "Op", "run": run, "op": o["op"], "t": o["t"], "s": geti(o, "s"), "i": geti(o, "i"),
                                "v": geti(o, "v"), "vs": o["vs"], "k": geti(o, "k")});
            tr.begin_call(ev.clone());
            let r = catch(|| cx.exec(o, &mut ev));
            tr.end_call();
            let panicked = r.is_err();
            ev["ret"] = r.unwrap_or_else(|_| rv("Panic", 0, json!([])));
            if panicked && gets(o, "op") == "Poll" {
                ev["taps"] = json!([]);
                ev["wk"] = json!(-1);
            }
            ev["contents"] = cx.src.contents();
            ev["work"] = cx.src.work();
            if tracking() {
                ev["tok"] = Value::Array(drain_tok_log());
            }
            tr.emit(&ev);
        }
    }
    let r = catch(move || drop(cx));
    let mut end = json!({"e": "EndRun", "run": run, "ok": if r.is_ok() {1} else {0}});
    if tracking() {
        end["tok"] = Value::Array(drain_tok_log());
    }
    tr.emit(&end);
}

pub fn replay(path: &str, out: &str) {
    let tr = Tracer::create(out);
    let tr2 = tr.clone();
    let path = path.to_string();
    with_watchdog(tr, 20, move || {
        for (i, b) in read_lines(&path).enumerate() {
            let ops = b.as_array().expect("behaviour must be an array");
            run_behaviour(&tr2, i as i64 + 1, ops);
        }
    });
}
