------------------------------ MODULE GenVecOps ------------------------------
(***************************************************************************)
(* C18: VectorDiff::map / VectorDiff::apply as a pure function.            *)
(* TLA+ is used here as an executable specification and exhaustive case    *)
(* generator (the documented exception for a self-contained function with  *)
(* rich case analysis): every vector up to MaxL over Vals, every diff of   *)
(* the eleven kinds with every index incl. the first two out of range,     *)
(* every mapping of the family.  MCCommute checks the commutation law on   *)
(* the specification's own definitions; Cases are printed for the harness. *)
(***************************************************************************)
EXTENDS VecOps, TLC, Json, Randomization

CONSTANTS MaxL, Vals, NRandom, RandLen

VARIABLE x
Init == x = 0
Next == x' = x

RECURSIVE SeqsUpTo(_)
SeqsUpTo(n) == IF n = 0 THEN {<<>>} ELSE SeqsUpTo(n - 1) \cup [1..n -> Vals]

F0(v) == v
F1(v) == v + 1
F2(v) == 7
F3(v) == v % 2
MapBy(f, s) == CASE f = 0 -> MapSeq(s, F0) [] f = 1 -> MapSeq(s, F1) [] f = 2 -> MapSeq(s, F2) [] OTHER -> MapSeq(s, F3)
MapDiffBy(f, d) == CASE f = 0 -> MapDiff(d, F0) [] f = 1 -> MapDiff(d, F1) [] f = 2 -> MapDiff(d, F2) [] OTHER -> MapDiff(d, F3)

DiffsFor(s) ==
    LET n == Len(s)  v == 9  vss == SeqsUpTo(2) IN
    {DClear, DPopFront, DPopBack, DPushFront(v), DPushBack(v)}
    \cup {DAppend(vs) : vs \in vss} \cup {DReset(vs) : vs \in vss}
    \cup {DInsert(i, v) : i \in 0..(n + 2)} \cup {DSet(i, v) : i \in 0..(n + 1)}
    \cup {DRemove(i) : i \in 0..(n + 1)} \cup {DTruncate(i) : i \in 0..(n + 2)}

Cases == {[s |-> s, d |-> d, f |-> f] : s \in SeqsUpTo(MaxL), d \in UNION {DiffsFor(t) : t \in SeqsUpTo(MaxL)}, f \in 0..3}
CasesOK == {c \in Cases : c.d \in DiffsFor(c.s)}

(* the law on the specification's own definitions *)
Commutes(c) == Applicable(c.d, c.s) /\ ~ApplyPanics(c.d, c.s)
                 => Apply(MapDiffBy(c.f, c.d), MapBy(c.f, c.s)) = MapBy(c.f, Apply(c.d, c.s))
IdentityLaw(c) == MapDiffBy(0, c.d) = c.d
PanicImpliesInapplicable(c) == ApplyPanics(c.d, c.s) => ~Applicable(c.d, c.s)

MCCommute == \A s \in SeqsUpTo(MaxL) : \A d \in DiffsFor(s) : \A f \in 0..3 :
                LET c == [s |-> s, d |-> d, f |-> f] IN Commutes(c) /\ IdentityLaw(c) /\ PanicImpliesInapplicable(c)

PrintCases == \A s \in SeqsUpTo(MaxL) : \A d \in DiffsFor(s) : \A f \in 0..3 :
                PrintT(<<"B", ToJson([s |-> s, d |-> d, f |-> f])>>)

(* randomised larger vectors *)
RandSeq(n) == [j \in 1..n |-> RandomElement(0..20)]
RandCase(j) ==
    LET n == RandomElement(0..RandLen)  s == RandSeq(n)  k == RandomElement(1..11)  i == RandomElement(0..(n + 2))
        v == RandomElement(0..20)  vs == RandSeq(RandomElement(0..6))
        d == CASE k = 1 -> DAppend(vs) [] k = 2 -> DClear [] k = 3 -> DPushFront(v) [] k = 4 -> DPushBack(v)
               [] k = 5 -> DPopFront [] k = 6 -> DPopBack [] k = 7 -> DInsert(i, v) [] k = 8 -> DSet(i, v)
               [] k = 9 -> DRemove(i) [] k = 10 -> DTruncate(i) [] OTHER -> DReset(vs)
    IN [s |-> s, d |-> d, f |-> RandomElement(0..3)]
PrintRandom == \A j \in 1..NRandom : PrintT(<<"B", ToJson(RandCase(j))>>)

(* vectors around the sizes at which imbl's Vector changes its representation (inline / one 64-item chunk / RRB tree), *)
(* each built three ways by the harness (field b: 0 collected, 1 pushed to the front in reverse, 2 built longer and    *)
(* popped from the front), so that the same contents come in different tree shapes                                    *)
LargeLens == {1, 63, 64, 65, 66, 129, 200}
Ramp(n, off) == [j \in 1..n |-> (j + off) % 17]
LargeDiffs(n) ==
    LET is == {0, n \div 2, n - 1, n, n + 1} \cap Nat IN
    {DClear, DPopFront, DPopBack, DPushFront(9), DPushBack(9)}
    \cup {DAppend(Ramp(m, 3)) : m \in LargeLens} \cup {DReset(Ramp(m, 5)) : m \in LargeLens}
    \cup {DInsert(i, 9) : i \in is} \cup {DSet(i, 9) : i \in is} \cup {DRemove(i) : i \in is} \cup {DTruncate(i) : i \in is}
PrintLarge == \A n \in LargeLens : \A d \in LargeDiffs(n) : \A f \in {0, 1} : \A b \in 0..2 :
                PrintT(<<"B", ToJson([s |-> Ramp(n, 0), d |-> d, f |-> f, b |-> b])>>)

ASSUME MCCommute
ASSUME PrintCases
ASSUME PrintRandom
ASSUME PrintLarge
=============================================================================
