------------------------------- MODULE MCObs -------------------------------
(* Exhaustive design-level check of Obs.tla for small constants.  History  *)
(* and last-return bookkeeping are hidden by the VIEW; the state           *)
(* constraint bounds the number of operations.                             *)
EXTENDS Obs
CONSTANT MaxOps
View == core
Bound == Len(hist) <= MaxOps
(* action properties *)
(* C01: a Ready(Some) poll leaves nothing unseen, so the next poll pends *)
PendingAgain == [][\A s \in SubIds : (ret'.t = "Some" /\ hist' # hist /\ hist'[Len(hist')].h = s
                     /\ hist'[Len(hist')].op \in PollVias) => ~unseen'[s]]_vars
(* C01: conditional setters that return None changed nothing *)
CondSetterNoop == [][(hist' # hist /\ hist'[Len(hist')].op \in {"SetIfNotEq", "SetIfHashNotEq", "GSetIfNotEq", "GSetIfHashNotEq"}
                      /\ ret'.t = "Nil") => (val' = val /\ ver' = ver /\ unseen' = unseen)]_vars
(* C03: once ended, stays ended; the value is retained *)
AfterEndStaysEnded == [][ver = 0 => (ver' = 0 /\ val' = val)]_vars
=============================================================================
