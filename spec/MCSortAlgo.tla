----------------------------- MODULE MCSortAlgo -----------------------------
(* Exhaustive one-step check of SortAlgo.tla: from EVERY consistent bookkeeping state of every source of length  *)
(* 0..MaxN over values with ties, every applicable input, EVERY result the relation allows.                     *)
EXTENDS Integers, Sequences, FiniteSets, TLC, Json
CONSTANTS MaxN,
          KeyMode     \* "sort" (Ord: the value), "sort_by" (descending on v mod 4), "sort_by_key" (v mod 3): the harness's three flavours
Key(v) == CASE KeyMode = "sort" -> v [] KeyMode = "sort_by" -> 3 - (v % 4) [] OTHER -> v % 3
INSTANCE SortAlgo WITH SortKey <- Key

VARIABLE x
Init == x = 0
Next == x' = x

SVals == 1..4
(* distinct values (items are distinguishable), ties through equal keys (1 and 4 share key 1) *)
Srcs == UNION {{f \in [1..n -> SVals] : \A i, j \in 1..n : i # j => f[i] # f[j]} : n \in 0..MaxN}
(* every bookkeeping state that is consistent with source s *)
BufsOf(s) ==
    LET n == Len(s) IN
    {[j \in 1..n |-> E(f[j], s[f[j] + 1])] :
        f \in {g \in [1..n -> 0..(n - 1)] : (\A i, j \in 1..n : i # j => g[i] # g[j])
                                             /\ \A j \in 1..(n - 1) : Cmp(s[g[j] + 1], s[g[j + 1] + 1]) <= 0}}
InputsFor(s) ==
    LET n == Len(s) IN
    {DClear} \cup {DPushFront(v) : v \in {2, 5}} \cup {DPushBack(v) : v \in {2, 5}}
    \cup (IF n > 0 THEN {DPopFront, DPopBack} ELSE {})
    \cup {DAppend(vs) : vs \in {<<>>, <<3>>, <<5, 1>>, <<2, 3, 2>>}}
    \cup {DReset(vs) : vs \in {<<>>, <<4, 1>>, <<2, 3, 5>>}}
    \cup {DInsert(i, v) : i \in 0..n, v \in {2, 3}} \cup {DSet(i, v) : i \in 0..(n - 1), v \in {1, 2, 3}}
    \cup {DRemove(i) : i \in 0..(n - 1)} \cup {DTruncate(i) : i \in 0..(n - 1)}

BufOK(buf, s, d) == \A r \in Results(buf, d) : BufOf(r.buf, Apply(d, s))
ViewOK(buf, s, d) == \A r \in Results(buf, d) : AllApplicable(r.out, Vals(buf)) /\ ApplyAll(r.out, Vals(buf)) = Vals(r.buf)

AllStepsOK ==
    \A s \in Srcs : \A buf \in BufsOf(s) : \A d \in InputsFor(s) :
        /\ Results(buf, d) # {}
        /\ BufOK(buf, s, d)
        /\ IF d.k = "Truncate" THEN ViewOK(buf, s, d) <=> TruncateOK(buf, d.i)     \* D4, characterised exactly
           ELSE ViewOK(buf, s, d)
ASSUME AllStepsOK

(* cases for the conformance run (TraceSortAlgo): the real adapter's bookkeeping is not observable, but with distinct   *)
(* source values its initial view determines it                                                                       *)
PrintSortCases ==
    \A s \in Srcs : \A d \in InputsFor(s) :
        PrintT(<<"B", ToJson([kind |-> KeyMode, s |-> s, p |-> 0, d |-> d, new |-> -1, expect |-> <<>>])>>)
ASSUME PrintSortCases
=============================================================================
