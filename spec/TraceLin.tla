------------------------------ MODULE TraceLin ------------------------------
(***************************************************************************)
(* Linearizability of recorded concurrent histories (C04, and the thread   *)
(* parts of C02 / C03) against the sequential specification Obs.tla.       *)
(*                                                                         *)
(* Events, in the order of one global atomic counter:                      *)
(*   Begin{init} setup{op,h,n}*  ( inv{t,op,a} | resp{t,ret} )*            *)
(*   Stuck{t}* EndRun                                                      *)
(* `inv` adds the call to the pending set; the internal step Lin(t)        *)
(* applies Obs's action for a pending call (its linearization point) and   *)
(* remembers the result; `resp` requires the call to be linearized with    *)
(* exactly the logged result.  TLC searches over the placements of the     *)
(* Lin steps (depth-first queue); a history is accepted iff some branch    *)
(* consumes it completely.  A thread recorded as Stuck (parked in next()   *)
(* with its wake flag clear after every other thread finished) must, in    *)
(* the final state of that branch, really have nothing to receive.         *)
(*                                                                         *)
(* Thread t uses owner-clone t, subscriber t, weak t, guard t (GenLin).    *)
(***************************************************************************)
EXTENDS Obs, Json, IOUtils, TLCExt

Rec == ndJsonDeserialize(IOEnv.TRACE)

VARIABLES l,      \* next event
          pend,   \* [Threads -> [st: "none" | "inv" | "lin", op, a, ret]]
          stuck   \* threads recorded as stuck in this run

Threads == OwnerIds
tvars == <<vars, l, pend, stuck>>
View == <<core, l, pend, stuck>>

NoCall == [st |-> "none", op |-> "", a |-> 0, ret |-> RNil]
Max2(a, b) == IF a > b THEN a ELSE b

TraceInit ==
    /\ l = 1 /\ pend = [t \in Threads |-> NoCall] /\ stuck = {}
    /\ kind = "shared" /\ val = 0 /\ ver = 1 /\ owners = {} /\ weaks = {} /\ subs = {}
    /\ obs = [s \in SubIds |-> 0] /\ unseen = [s \in SubIds |-> FALSE]
    /\ armed = [s \in SubIds |-> FALSE]
    /\ registered = {} /\ woken = {} /\ owed = {}
    /\ guards = [g \in GuardIds |-> NoGuard]
    /\ ret = RNil /\ hist = <<>>
    /\ TLCSet(1, 1) /\ TLCSet(2, 0) /\ TLCSet(3, 0)

E == Rec[l]

DoBegin ==
    /\ E.e = "Begin"
    /\ kind' = (IF E.shared = 1 THEN "shared" ELSE "unique") /\ val' = E.init /\ ver' = 1 /\ owners' = {1} /\ weaks' = {} /\ subs' = {}
    /\ obs' = [s \in SubIds |-> 0] /\ unseen' = [s \in SubIds |-> FALSE]
    /\ armed' = [s \in SubIds |-> FALSE]
    /\ registered' = {} /\ woken' = {} /\ owed' = {}
    /\ guards' = [g \in GuardIds |-> NoGuard]
    /\ ret' = RNil /\ hist' = <<>>
    /\ pend' = [t \in Threads |-> NoCall] /\ stuck' = {}
    /\ l' = l + 1

DoSetup ==
    /\ E.e = "setup"
    /\ \/ E.op = "CloneOwner" /\ CloneOwner(E.h, E.n)
       \/ E.op = "Subscribe" /\ Subscribe(E.h, E.n)
       \/ E.op = "SubscribeReset" /\ SubscribeReset(E.h, E.n)
       \/ E.op = "Downgrade" /\ Downgrade(E.h, E.n)
    /\ UNCHANGED <<pend, stuck>> /\ l' = l + 1

DoInv ==
    /\ E.e = "inv" /\ pend[E.t].st = "none"
    /\ pend' = [pend EXCEPT ![E.t] = [st |-> "inv", op |-> E.op, a |-> E.a, ret |-> RNil]]
    /\ UNCHANGED <<vars, stuck>> /\ l' = l + 1

(* try_read / try_write may also fail because another call that is in      *)
(* flight holds the lock transiently (every call takes the lock for a      *)
(* moment); the specification does not model those moments, so a failure   *)
(* is accepted whenever such a call overlaps.  A success is never excused. *)
WLockOps == {"Set", "SetIfNotEq", "Update", "Write", "TryWriteNow"}
RLockOps == {"Get", "Read", "Subscribe", "NextNow", "SubGet", "SubRead", "PollNext", "TryReadNow", "DropOwner"}
OtherInFlight(t, kinds) == \E u \in Threads \ {t} : pend[u].st # "none" /\ pend[u].op \in kinds
TryFails(t, name) ==
    /\ t \in owners /\ ret' = RFail
    /\ hist' = Append(hist, H(name, t, 0, 0, 0))
    /\ UNCHANGED core

(* the sequential action of a pending call of thread t *)
CallAction(t, c) ==
    \/ c.op = "Set" /\ Set("o", t, c.a)
    \/ c.op = "SetIfNotEq" /\ SetIfNotEq("o", t, c.a)
    \/ c.op = "Update" /\ Update("o", t, c.a)
    \/ c.op = "Get" /\ OwnerGet(t)
    \/ c.op = "DropOwner" /\ DropOwner(t)
    \/ c.op = "Read" /\ OwnerRead(t, t)
    \/ c.op = "Write" /\ OwnerWrite(t, t)
    \/ c.op = "GSet" /\ Set("g", t, c.a)
    \/ c.op = "GuardGet" /\ GuardGet(t)
    \/ c.op = "DropGuard" /\ DropGuard(t)
    \/ c.op = "TryReadNow" /\ (OwnerTryReadNow(t) \/ (OtherInFlight(t, WLockOps) /\ TryFails(t, "TryReadNow")))
    \/ c.op = "TryWriteNow" /\ (OwnerTryWriteNow(t) \/ (OtherInFlight(t, WLockOps \cup RLockOps) /\ TryFails(t, "TryWriteNow")))
    \/ c.op = "Subscribe" /\ Subscribe(t, t)
    \/ c.op = "Downgrade" /\ Downgrade(t, t)
    \/ c.op = "Upgrade" /\ Upgrade(t, IF owners # {} THEN t ELSE 0)
    \/ c.op = "NextNow" /\ NextNow(t)
    \/ c.op = "SubGet" /\ SubGet(t)
    \/ c.op = "Reset" /\ Reset(t)
    \/ c.op = "DropSub" /\ DropSub(t)
    \/ c.op = "SubRead" /\ SubRead(t, t)
    \/ c.op = "PollNext" /\ PollResult(t) # RPending /\ Poll(t, "PollNext")   \* a blocking next() returns only a value or the end

Lin(t) ==
    /\ l <= Len(Rec) /\ pend[t].st = "inv"
    /\ CallAction(t, pend[t])
    /\ pend' = [pend EXCEPT ![t].st = "lin", ![t].ret = ret']
    /\ UNCHANGED <<l, stuck>>

DoResp ==
    /\ E.e = "resp" /\ pend[E.t].st = "lin" /\ pend[E.t].ret = E.ret
    /\ pend' = [pend EXCEPT ![E.t] = NoCall]
    /\ UNCHANGED <<vars, stuck>> /\ l' = l + 1

DoStuck ==
    /\ E.e = "Stuck"
    /\ stuck' = stuck \cup {E.t}
    /\ UNCHANGED <<vars, pend>> /\ l' = l + 1

(* End of a run: a stuck thread's blocking call must still be unable to    *)
(* complete, i.e. no unobserved update and no end of stream is available.  *)
DoEnd ==
    /\ E.e = "EndRun"
    /\ \A t \in stuck : pend[t].st = "inv" /\ pend[t].op = "PollNext" /\ t \in subs /\ PollResult(t) = RPending
    /\ \A t \in Threads \ stuck : pend[t].st = "none"
    /\ UNCHANGED <<vars, pend, stuck>> /\ l' = l + 1
    /\ TLCSet(2, TLCGet(2) + 1)

(* a call that never returned because the code deadlocked / livelocked *)
DoHung == E.e = "Hung" /\ FALSE

TraceNext ==
    \/ (l <= Len(Rec) /\ (DoBegin \/ DoSetup \/ DoInv \/ DoResp \/ DoStuck \/ DoEnd))
    \/ \E t \in Threads : Lin(t)

TraceSpec == TraceInit /\ [][TraceNext]_tvars

Far == TLCSet(1, Max2(l, TLCGet(1)))

TraceAccepted ==
    IF TLCGet(1) = Len(Rec) + 1
    THEN PrintT(<<"STATS", ToJson(<<Len(Rec), TLCGet(2), TLCGet(3)>>)>>)
    ELSE /\ PrintT(<<"REJECTED", TLCGet(1), ToJson(Rec[TLCGet(1)])>>)
         /\ PrintT(<<"STATS", ToJson(<<Len(Rec), TLCGet(2), TLCGet(3)>>)>>)
=============================================================================
