------------------------------ MODULE ObsProofs ------------------------------
(***************************************************************************)
(* TLAPS proof that the design-level invariants of Obs.tla behind C01,     *)
(* C02 and C03 are inductive, i.e. hold in EVERY reachable state for ANY   *)
(* value range and ANY sets of handle ids and for histories of any length  *)
(* -- TLC establishes the same invariants only up to a depth bound and for *)
(* three or four ids of each kind.                                         *)
(*                                                                         *)
(*   C01  ReadyIffUnseen, ObservedLeVer   (version bookkeeping = "unseen") *)
(*   C02  NoLostWake, ArmedRegisteredOrWoken                               *)
(*   C03  ClosedIffNoOwner                                                 *)
(*                                                                         *)
(* Check with:  tlapm --threads 8 -I <CommunityModules> ObsProofs.tla      *)
(* (`./check proofs`).  The proof is about the specification; the binding  *)
(* to the code is the trace validation against the very same module.       *)
(***************************************************************************)
EXTENDS Obs, TLAPS

ASSUME NVPos == NV \in Nat /\ NV > 0

(* what the proof needs to know about the shape of the variables *)
Shape ==
    /\ ver \in Nat
    /\ subs \subseteq SubIds
    /\ obs \in [SubIds -> Nat]
    /\ unseen \in [SubIds -> BOOLEAN]
    /\ armed \in [SubIds -> BOOLEAN]
    /\ registered \subseteq SubIds /\ woken \subseteq SubIds /\ owed \subseteq SubIds
    /\ guards \in [GuardIds -> [t : {"none", "r", "w"}, of : {"o", "s"}, h : OwnerIds \cup SubIds \cup {0}, mut : BOOLEAN]]

(* a write guard is always borrowed from a live owner, so a writer implies an owner *)
WriteGuardsOfOwners == \A g \in GuardIds : guards[g].t = "w" => (guards[g].of = "o" /\ guards[g].h \in owners)

IndInv ==
    /\ Shape
    /\ WriteGuardsOfOwners
    /\ ClosedIffNoOwner
    /\ ObservedLeVer
    /\ ReadyIffUnseen
    /\ ArmedRegisteredOrWoken
    /\ NoLostWake

LEMMA InitInv == Init => IndInv
  BY NVPos DEF Init, IndInv, Shape, WriteGuardsOfOwners, ClosedIffNoOwner, ObservedLeVer, ReadyIffUnseen,
               ArmedRegisteredOrWoken, NoLostWake, MustBeWoken, NoGuard, Smallest

(* a writer exists only while an owner exists, hence only while the value is open *)
LEMMA WriterOpen ==
    ASSUME IndInv, NEW w, NEW h, WriterOk(w, h)
    PROVE  ver # 0 /\ owners # {}
  BY DEF IndInv, Shape, WriteGuardsOfOwners, ClosedIffNoOwner, WriterOk, WriteGuards

(* the common effect of every notifying writer *)
LEMMA NotifyInv ==
    ASSUME IndInv, Notify, ver # 0,
           UNCHANGED <<owners, subs, obs, armed, guards>>
    PROVE  IndInv'
  BY DEF IndInv, Shape, WriteGuardsOfOwners, ClosedIffNoOwner, ObservedLeVer, ReadyIffUnseen,
         ArmedRegisteredOrWoken, NoLostWake, MustBeWoken, Notify

LEMMA NoNotifyInv ==
    ASSUME IndInv, NoNotify,
           UNCHANGED <<owners, subs, obs, armed, guards>>
    PROVE  IndInv'
  BY DEF IndInv, Shape, WriteGuardsOfOwners, ClosedIffNoOwner, ObservedLeVer, ReadyIffUnseen,
         ArmedRegisteredOrWoken, NoLostWake, MustBeWoken, NoNotify

(* actions that touch nothing the invariant mentions *)
LEMMA CoreUnchangedInv ==
    ASSUME IndInv, UNCHANGED <<ver, owners, subs, obs, unseen, armed, registered, woken, owed, guards>>
    PROVE  IndInv'
  BY DEF IndInv, Shape, WriteGuardsOfOwners, ClosedIffNoOwner, ObservedLeVer, ReadyIffUnseen,
         ArmedRegisteredOrWoken, NoLostWake, MustBeWoken

LEMMA WritersInv ==
    ASSUME IndInv, NEW w, NEW h, NEW a
    PROVE  /\ Set(w, h, a) => IndInv'
           /\ SetIfNotEq(w, h, a) => IndInv'
           /\ SetIfHashNotEq(w, h, a) => IndInv'
           /\ Update(w, h, a) => IndInv'
           /\ \A b : UpdateIf(w, h, a, b) => IndInv'
           /\ Take(w, h) => IndInv'
  <1>1. Set(w, h, a) => IndInv'
    BY WriterOpen, NotifyInv DEF Set
  <1>2. SetIfNotEq(w, h, a) => IndInv'
    BY WriterOpen, NotifyInv, NoNotifyInv DEF SetIfNotEq
  <1>3. SetIfHashNotEq(w, h, a) => IndInv'
    BY WriterOpen, NotifyInv, NoNotifyInv DEF SetIfHashNotEq
  <1>4. Update(w, h, a) => IndInv'
    BY WriterOpen, NotifyInv DEF Update
  <1>5. \A b : UpdateIf(w, h, a, b) => IndInv'
    BY WriterOpen, NotifyInv, NoNotifyInv DEF UpdateIf
  <1>6. Take(w, h) => IndInv'
    BY WriterOpen, NotifyInv DEF Take
  <1> QED BY <1>1, <1>2, <1>3, <1>4, <1>5, <1>6

LEMMA OwnerInv ==
    ASSUME IndInv, NEW o \in OwnerIds
    PROVE  /\ OwnerGet(o) => IndInv'
           /\ DropOwner(o) => IndInv'
           /\ IntoShared(o) => IndInv'
           /\ \A n : Subscribe(o, n) => IndInv'
           /\ \A n : SubscribeReset(o, n) => IndInv'
           /\ \A n : CloneOwner(o, n) => IndInv'
           /\ \A n : Downgrade(o, n) => IndInv'
           /\ \A g : (OwnerRead(o, g) \/ OwnerTryRead(o, g) \/ OwnerWrite(o, g) \/ OwnerTryWrite(o, g)) => IndInv'
  <1>1. OwnerGet(o) => IndInv'
    BY CoreUnchangedInv DEF OwnerGet, core
  <1>2. DropOwner(o) => IndInv'
    <2> SUFFICES ASSUME DropOwner(o) PROVE IndInv'
      OBVIOUS
    <2>1. CASE owners = {o}
      BY <2>1 DEF DropOwner, Close, IndInv, Shape, WriteGuardsOfOwners, ClosedIffNoOwner, ObservedLeVer, ReadyIffUnseen,
                  ArmedRegisteredOrWoken, NoLostWake, MustBeWoken, OwnerBorrowed, LiveGuards
    <2>2. CASE owners # {o}
      BY <2>2 DEF DropOwner, IndInv, Shape, WriteGuardsOfOwners, ClosedIffNoOwner, ObservedLeVer, ReadyIffUnseen,
                  ArmedRegisteredOrWoken, NoLostWake, MustBeWoken, OwnerBorrowed, LiveGuards
    <2> QED BY <2>1, <2>2
  <1>3. IntoShared(o) => IndInv'
    BY CoreUnchangedInv DEF IntoShared
  <1>4. \A n : Subscribe(o, n) => IndInv'
    BY DEF Subscribe, IndInv, Shape, WriteGuardsOfOwners, ClosedIffNoOwner, ObservedLeVer, ReadyIffUnseen,
           ArmedRegisteredOrWoken, NoLostWake, MustBeWoken
  <1>5. \A n : SubscribeReset(o, n) => IndInv'
    BY DEF SubscribeReset, IndInv, Shape, WriteGuardsOfOwners, ClosedIffNoOwner, ObservedLeVer, ReadyIffUnseen,
           ArmedRegisteredOrWoken, NoLostWake, MustBeWoken
  <1>6. \A n : CloneOwner(o, n) => IndInv'
    BY DEF CloneOwner, IndInv, Shape, WriteGuardsOfOwners, ClosedIffNoOwner, ObservedLeVer, ReadyIffUnseen,
           ArmedRegisteredOrWoken, NoLostWake, MustBeWoken
  <1>7. \A n : Downgrade(o, n) => IndInv'
    BY CoreUnchangedInv DEF Downgrade
  <1>8. \A g : (OwnerRead(o, g) \/ OwnerTryRead(o, g) \/ OwnerWrite(o, g) \/ OwnerTryWrite(o, g)) => IndInv'
    BY DEF OwnerRead, OwnerTryRead, OwnerWrite, OwnerTryWrite, FreeGuards, LiveGuards,
           IndInv, Shape, WriteGuardsOfOwners, ClosedIffNoOwner, ObservedLeVer, ReadyIffUnseen,
           ArmedRegisteredOrWoken, NoLostWake, MustBeWoken
  <1> QED BY <1>1, <1>2, <1>3, <1>4, <1>5, <1>6, <1>7, <1>8

LEMMA WeakInv ==
    ASSUME IndInv, NEW w \in WeakIds
    PROVE  /\ DropWeak(w) => IndInv'
           /\ \A n : CloneWeak(w, n) => IndInv'
           /\ \A n : Upgrade(w, n) => IndInv'
  <1>1. DropWeak(w) => IndInv'
    BY CoreUnchangedInv DEF DropWeak
  <1>2. \A n : CloneWeak(w, n) => IndInv'
    BY CoreUnchangedInv DEF CloneWeak
  <1>3. \A n : Upgrade(w, n) => IndInv'
    BY DEF Upgrade, IndInv, Shape, WriteGuardsOfOwners, ClosedIffNoOwner, ObservedLeVer, ReadyIffUnseen,
           ArmedRegisteredOrWoken, NoLostWake, MustBeWoken
  <1> QED BY <1>1, <1>2, <1>3

LEMMA GuardInv ==
    ASSUME IndInv, NEW g \in GuardIds
    PROVE  /\ GuardGet(g) => IndInv'
           /\ DropGuard(g) => IndInv'
  <1>1. GuardGet(g) => IndInv'
    BY CoreUnchangedInv DEF GuardGet, core
  <1>2. DropGuard(g) => IndInv'
    BY DEF DropGuard, NoGuard, LiveGuards, IndInv, Shape, WriteGuardsOfOwners, ClosedIffNoOwner, ObservedLeVer, ReadyIffUnseen,
           ArmedRegisteredOrWoken, NoLostWake, MustBeWoken
  <1> QED BY <1>1, <1>2

LEMMA SubInv ==
    ASSUME IndInv, NEW s \in SubIds
    PROVE  /\ \A via : Poll(s, via) => IndInv'
           /\ NextNow(s) => IndInv'
           /\ SubGet(s) => IndInv'
           /\ Reset(s) => IndInv'
           /\ DropSub(s) => IndInv'
           /\ \A g : (NextRefNow(s, g) \/ SubRead(s, g)) => IndInv'
           /\ \A n : (CloneSub(s, n) \/ CloneReset(s, n)) => IndInv'
  <1>1. \A via : Poll(s, via) => IndInv'
    <2> SUFFICES ASSUME NEW via, Poll(s, via) PROVE IndInv'
      OBVIOUS
    <2>1. CASE ver = 0
      BY <2>1 DEF Poll, PollEffect, IndInv, Shape, WriteGuardsOfOwners, ClosedIffNoOwner, ObservedLeVer, ReadyIffUnseen,
                  ArmedRegisteredOrWoken, NoLostWake, MustBeWoken
    <2>2. CASE ver # 0 /\ obs[s] < ver
      BY <2>2 DEF Poll, PollEffect, IndInv, Shape, WriteGuardsOfOwners, ClosedIffNoOwner, ObservedLeVer, ReadyIffUnseen,
                  ArmedRegisteredOrWoken, NoLostWake, MustBeWoken
    <2>3. CASE ver # 0 /\ ~(obs[s] < ver)
      BY <2>3 DEF Poll, PollEffect, IndInv, Shape, WriteGuardsOfOwners, ClosedIffNoOwner, ObservedLeVer, ReadyIffUnseen,
                  ArmedRegisteredOrWoken, NoLostWake, MustBeWoken
    <2> QED BY <2>1, <2>2, <2>3
  <1>2. NextNow(s) => IndInv'
    BY DEF NextNow, IndInv, Shape, WriteGuardsOfOwners, ClosedIffNoOwner, ObservedLeVer, ReadyIffUnseen,
           ArmedRegisteredOrWoken, NoLostWake, MustBeWoken
  <1>3. SubGet(s) => IndInv'
    BY CoreUnchangedInv DEF SubGet, core
  <1>4. Reset(s) => IndInv'
    BY DEF Reset, IndInv, Shape, WriteGuardsOfOwners, ClosedIffNoOwner, ObservedLeVer, ReadyIffUnseen,
           ArmedRegisteredOrWoken, NoLostWake, MustBeWoken
  <1>5. DropSub(s) => IndInv'
    BY DEF DropSub, IndInv, Shape, WriteGuardsOfOwners, ClosedIffNoOwner, ObservedLeVer, ReadyIffUnseen,
           ArmedRegisteredOrWoken, NoLostWake, MustBeWoken
  <1>6. \A g : (NextRefNow(s, g) \/ SubRead(s, g)) => IndInv'
    BY DEF NextRefNow, SubRead, FreeGuards, LiveGuards, IndInv, Shape, WriteGuardsOfOwners, ClosedIffNoOwner, ObservedLeVer,
           ReadyIffUnseen, ArmedRegisteredOrWoken, NoLostWake, MustBeWoken
  <1>7. \A n : (CloneSub(s, n) \/ CloneReset(s, n)) => IndInv'
    BY DEF CloneSub, CloneReset, IndInv, Shape, WriteGuardsOfOwners, ClosedIffNoOwner, ObservedLeVer, ReadyIffUnseen,
           ArmedRegisteredOrWoken, NoLostWake, MustBeWoken
  <1> QED BY <1>1, <1>2, <1>3, <1>4, <1>5, <1>6, <1>7

LEMMA NextInv == IndInv /\ [Next]_vars => IndInv'
  <1> SUFFICES ASSUME IndInv, [Next]_vars PROVE IndInv'
    OBVIOUS
  <1>1. CASE UNCHANGED vars
    BY <1>1, CoreUnchangedInv DEF vars
  <1>2. CASE Next
    <2>1. CASE \E w \in Writers, a \in Vals :
                  \/ Set(w[1], w[2], a) \/ SetIfNotEq(w[1], w[2], a) \/ SetIfHashNotEq(w[1], w[2], a)
                  \/ Update(w[1], w[2], a)
                  \/ \E b \in BOOLEAN : UpdateIf(w[1], w[2], a, b)
      BY <2>1, WritersInv
    <2>2. CASE \E w \in Writers : Take(w[1], w[2])
      BY <2>2, WritersInv
    <2>3. CASE \E o \in OwnerIds :
                  \/ OwnerGet(o) \/ DropOwner(o) \/ IntoShared(o)
                  \/ \E n \in NewSub : Subscribe(o, n) \/ SubscribeReset(o, n)
                  \/ \E n \in NewOwner : CloneOwner(o, n)
                  \/ \E n \in NewWeak : Downgrade(o, n)
                  \/ \E g \in NewGuard : OwnerRead(o, g) \/ OwnerTryRead(o, g) \/ OwnerWrite(o, g) \/ OwnerTryWrite(o, g)
      BY <2>3, OwnerInv
    <2>4. CASE \E w \in WeakIds :
                  \/ DropWeak(w)
                  \/ \E n \in NewWeak : CloneWeak(w, n)
                  \/ \E n \in NewOwner \cup {0} : Upgrade(w, n)
      BY <2>4, WeakInv
    <2>5. CASE \E g \in GuardIds : GuardGet(g) \/ DropGuard(g)
      BY <2>5, GuardInv
    <2>6. CASE \E s \in SubIds :
                  \/ \E via \in PollVias : Poll(s, via)
                  \/ NextNow(s) \/ SubGet(s) \/ Reset(s) \/ DropSub(s)
                  \/ \E g \in NewGuard : NextRefNow(s, g) \/ SubRead(s, g)
                  \/ \E n \in NewSub : CloneSub(s, n) \/ CloneReset(s, n)
      BY <2>6, SubInv
    <2> QED BY <1>2, <2>1, <2>2, <2>3, <2>4, <2>5, <2>6 DEF Next
  <1> QED BY <1>1, <1>2

THEOREM Safety == Spec => [](ReadyIffUnseen /\ ObservedLeVer /\ NoLostWake /\ ArmedRegisteredOrWoken /\ ClosedIffNoOwner)
  <1>1. Spec => []IndInv
    BY InitInv, NextInv, PTL DEF Spec
  <1>2. IndInv => (ReadyIffUnseen /\ ObservedLeVer /\ NoLostWake /\ ArmedRegisteredOrWoken /\ ClosedIffNoOwner)
    BY DEF IndInv
  <1> QED BY <1>1, <1>2, PTL
=============================================================================
