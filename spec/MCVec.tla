------------------------------- MODULE MCVec -------------------------------
(* Exhaustive design-level check of Vec.tla for small constants. *)
EXTENDS Vec
CONSTANT MaxOps
View == <<core, Len(hist)>>
Bound == Len(hist) <= MaxOps
=============================================================================
