---------------------------- MODULE TraceSortAlgo ----------------------------
(***************************************************************************)
(* Arm-by-arm conformance of the real Sort / SortBy / SortByKey against    *)
(* SortAlgo.tla.  Each recorded case: source s (distinct values), ONE      *)
(* input diff d, the adapter's initial values and everything it emitted    *)
(* until Pending.  Verdict clauses are C11's (initial values / rebuilt     *)
(* view = a sorted permutation of the source, every diff applicable, no    *)
(* end); membership of the emitted diffs in the transcription's result     *)
(* RELATION only feeds the DRIFT counter.                                  *)
(***************************************************************************)
EXTENDS VecOps, TLC, Json, IOUtils, TLCExt
Rec == ndJsonDeserialize(IOEnv.TRACE)
VARIABLE l
Bump(i) == TLCSet(i, TLCGet(i) + 1)

KOrd(v) == v
KBy(v) == 3 - (v % 4)
KKey(v) == v % 3
SOrd == INSTANCE SortAlgo WITH SortKey <- KOrd
SBy  == INSTANCE SortAlgo WITH SortKey <- KBy
SKey == INSTANCE SortAlgo WITH SortKey <- KKey

KeyOf(kind, v) == CASE kind = "sort" -> KOrd(v) [] kind = "sort_by" -> KBy(v) [] OTHER -> KKey(v)
ResultsOf(kind, buf, d) == CASE kind = "sort" -> SOrd!Results(buf, d) [] kind = "sort_by" -> SBy!Results(buf, d) [] OTHER -> SKey!Results(buf, d)

RECURSIVE Flat(_)
Flat(bs) == IF bs = <<>> THEN <<>> ELSE Head(bs) \o Flat(Tail(bs))

SortedView(kind, v) == \A j \in 1..(Len(v) - 1) : KeyOf(kind, v[j]) <= KeyOf(kind, v[j + 1])

SameItems(a, b) == SamePerm(a, b)
ViewRule(kind, v, src) == SortedView(kind, v) /\ SameItems(v, src)

(* the bookkeeping the adapter must hold after creation: with distinct source values the view determines it *)
BufFrom(init, s) == [j \in 1..Len(init) |-> [u |-> (CHOOSE i \in 1..Len(s) : s[i] = init[j]) - 1, v |-> init[j]]]

Failures(e) ==
    LET src2 == Apply(e.d, e.s)
        ds   == Flat(e.items)
        okInit == ViewRule(e.kind, e.init, e.s)
    IN (IF e.end = "Panic" THEN {<<"C11", "panic">>} ELSE {})
       \cup (IF e.end # "Panic" /\ ~okInit THEN {<<"C11", "init-view">>} ELSE {})
       \cup (IF e.end # "Panic" /\ okInit /\ ~AllApplicable(ds, e.init) THEN {<<"C11", "inapplicable">>} ELSE {})
       \cup (IF e.end # "Panic" /\ okInit /\ AllApplicable(ds, e.init) /\ ~ViewRule(e.kind, ApplyAll(ds, e.init), src2)
             THEN {<<"C11", "view">>} ELSE {})
       \cup (IF e.end \notin {"Pending", "Panic"} THEN {<<"C11", "end">>} ELSE {})
       \cup (IF e.flav = "batched" /\ \E b \in 1..Len(e.items) : e.items[b] = <<>> THEN {<<"C13", "empty-batch">>} ELSE {})

Drift(e) ==
    e.end # "Panic" /\ ViewRule(e.kind, e.init, e.s)
    /\ Flat(e.items) \notin {r.out : r \in ResultsOf(e.kind, BufFrom(e.init, e.s), e.d)}

TraceInit == l = 1 /\ TLCSet(1, 0) /\ TLCSet(2, 0) /\ TLCSet(3, 0)
TraceNext ==
    /\ l <= Len(Rec) /\ l' = l + 1
    /\ LET e == Rec[l]
           ds == Flat(e.items) IN
         /\ \A f \in Failures(e) :
               PrintT(<<"V", e.run, l, f[1], f[2],
                        ToJson([op |-> "Case", kind |-> e.kind, s |-> e.s, p |-> e.p, d |-> e.d, new |-> e.new, flav |-> e.flav,
                                init |-> e.init, items |-> e.items, expect |-> e.expect, end |-> e.end, d2 |-> FALSE,
                                d4 |-> (e.d.k = "Truncate" /\ \E j \in 1..Len(ds) : ds[j].k = "Truncate")])>>)
         /\ Bump(1)
         /\ (Drift(e) => Bump(2))                  \* DRIFT: the code emitted something the transcription's relation does not allow
         /\ (ds # <<>> => Bump(3))
TraceSpec == TraceInit /\ [][TraceNext]_l
TraceAccepted ==
    LET d == TLCGet("stats").diameter IN
    IF d - 1 = Len(Rec) THEN PrintT(<<"STATS", ToJson(<<Len(Rec), TLCGet(1), TLCGet(2), TLCGet(3)>>)>>)
    ELSE PrintT(<<"STUCK", d>>) /\ FALSE
=============================================================================
