//! Shared infrastructure of the conformance harness: instrumented element
//! type, flag wakers, trace writer, watchdog.
//!
//! The harness contains no oracle. It executes the operations a behaviour
//! file prescribes on the real eyeball objects and writes down what happened.

use std::{
    fs::File,
    hash::{Hash, Hasher},
    io::{BufRead, BufReader, BufWriter, Write},
    panic::{self, AssertUnwindSafe},
    sync::{
        atomic::{AtomicBool, AtomicU64, Ordering},
        Arc, Mutex,
    },
    task::{Wake, Waker},
    time::Duration,
};

use serde_json::{json, Value};

// ---------------------------------------------------------------------------
// Instrumented element type (C20): every instance has an id; construction,
// clone and drop are logged while tracking is on.
// ---------------------------------------------------------------------------

static TRACK: AtomicBool = AtomicBool::new(false);
static NEXT_TOK: AtomicU64 = AtomicU64::new(1);
static TOK_LOG: Mutex<Vec<Value>> = Mutex::new(Vec::new());

pub fn track(on: bool) {
    TRACK.store(on, Ordering::SeqCst);
}

pub fn tracking() -> bool {
    TRACK.load(Ordering::Relaxed)
}

pub fn drain_tok_log() -> Vec<Value> {
    std::mem::take(&mut *TOK_LOG.lock().unwrap_or_else(|e| e.into_inner()))
}

fn tok_ev(ev: Value) {
    TOK_LOG.lock().unwrap_or_else(|e| e.into_inner()).push(ev);
}

#[derive(Debug)]
pub struct Elem {
    pub v: i64,
    tok: u64,
}

impl Elem {
    pub fn new(v: i64) -> Self {
        let tok = NEXT_TOK.fetch_add(1, Ordering::Relaxed);
        if tracking() {
            tok_ev(json!(["n", tok, 0]));
        }
        Elem { v, tok }
    }
    /// Read the value, logging a use of this instance.
    pub fn val(&self) -> i64 {
        if tracking() {
            tok_ev(json!(["u", self.tok, 0]));
        }
        self.v
    }
}

impl Default for Elem {
    fn default() -> Self {
        Elem::new(0)
    }
}

impl Clone for Elem {
    fn clone(&self) -> Self {
        let tok = NEXT_TOK.fetch_add(1, Ordering::Relaxed);
        if tracking() {
            tok_ev(json!(["c", tok, self.tok]));
        }
        Elem { v: self.v, tok }
    }
}

impl Drop for Elem {
    fn drop(&mut self) {
        if tracking() {
            tok_ev(json!(["d", self.tok, 0]));
        }
    }
}

impl Elem {
    #[inline]
    fn touch(&self) {
        if tracking() {
            tok_ev(json!(["u", self.tok, 0]));
        }
    }
}

impl PartialEq for Elem {
    fn eq(&self, other: &Self) -> bool {
        self.touch();
        other.touch();
        self.v == other.v
    }
}
impl Eq for Elem {}
impl PartialOrd for Elem {
    fn partial_cmp(&self, other: &Self) -> Option<std::cmp::Ordering> {
        Some(self.cmp(other))
    }
}
impl Ord for Elem {
    fn cmp(&self, other: &Self) -> std::cmp::Ordering {
        self.touch();
        other.touch();
        self.v.cmp(&other.v)
    }
}
/// Hash class = v mod 2 (Obs.tla `Hash`): equal-hash / unequal-value pairs exist.
impl Hash for Elem {
    fn hash<H: Hasher>(&self, state: &mut H) {
        self.touch();
        (self.v.rem_euclid(2)).hash(state);
    }
}

pub fn seq_json<'a>(it: impl IntoIterator<Item = &'a Elem>) -> Value {
    Value::Array(it.into_iter().map(|e| json!(e.v)).collect())
}

// ---------------------------------------------------------------------------
// Flag waker
// ---------------------------------------------------------------------------

#[derive(Default)]
pub struct Flag(pub AtomicBool);

impl Wake for Flag {
    fn wake(self: Arc<Self>) {
        self.0.store(true, Ordering::SeqCst);
    }
    fn wake_by_ref(self: &Arc<Self>) {
        self.0.store(true, Ordering::SeqCst);
    }
}

impl Flag {
    pub fn new() -> Arc<Flag> {
        Arc::new(Flag::default())
    }
    pub fn is_set(&self) -> bool {
        self.0.load(Ordering::SeqCst)
    }
    pub fn clear(&self) {
        self.0.store(false, Ordering::SeqCst)
    }
}

pub fn waker_of(f: &Arc<Flag>) -> Waker {
    Waker::from(f.clone())
}

// ---------------------------------------------------------------------------
// Trace writer + watchdog
// ---------------------------------------------------------------------------

pub struct Tracer {
    out: Mutex<BufWriter<File>>,
    /// (run id, description of the call in progress) for the watchdog.
    in_progress: Mutex<Option<Value>>,
    progress: AtomicU64,
}

impl Tracer {
    pub fn create(path: &str) -> Arc<Tracer> {
        let f = File::create(path).unwrap_or_else(|e| panic!("cannot create {path}: {e}"));
        Arc::new(Tracer {
            out: Mutex::new(BufWriter::with_capacity(1 << 20, f)),
            in_progress: Mutex::new(None),
            progress: AtomicU64::new(0),
        })
    }
    pub fn emit(&self, v: &Value) {
        let mut o = self.out.lock().unwrap();
        serde_json::to_writer(&mut *o, v).unwrap();
        o.write_all(b"\n").unwrap();
        self.progress.fetch_add(1, Ordering::Relaxed);
    }
    pub fn begin_call(&self, v: Value) {
        *self.in_progress.lock().unwrap() = Some(v);
        self.progress.fetch_add(1, Ordering::Relaxed);
    }
    pub fn end_call(&self) {
        *self.in_progress.lock().unwrap() = None;
    }
    pub fn flush(&self) {
        self.out.lock().unwrap().flush().unwrap();
    }
}

/// Run `f` on a worker thread; if it makes no progress for `secs` seconds the
/// call in progress is recorded with result "Hang" and the process exits 3.
pub fn with_watchdog(tr: Arc<Tracer>, secs: u64, f: impl FnOnce() + Send + 'static) {
    let done = Arc::new(AtomicBool::new(false));
    let d2 = done.clone();
    let h = std::thread::Builder::new()
        .stack_size(64 << 20)
        .spawn(move || {
            f();
            d2.store(true, Ordering::SeqCst);
        })
        .unwrap();
    let mut last = tr.progress.load(Ordering::Relaxed);
    let mut idle = 0u64;
    while !done.load(Ordering::SeqCst) {
        std::thread::sleep(Duration::from_millis(50));
        if h.is_finished() {
            break;
        }
        let p = tr.progress.load(Ordering::Relaxed);
        if p != last {
            last = p;
            idle = 0;
        } else {
            idle += 50;
            if idle >= secs * 1000 {
                let cur = tr.in_progress.lock().unwrap().clone();
                if let Some(mut c) = cur {
                    c["ret"] = json!({"t": "Hang", "v": 0});
                    tr.emit(&c);
                }
                tr.emit(&json!({"e": "Hang"}));
                tr.flush();
                eprintln!("harness: watchdog: no progress for {secs}s");
                std::process::exit(3);
            }
        }
    }
    if let Err(e) = h.join() {
        tr.flush();
        eprintln!("harness: worker panicked outside catch_unwind: {:?}", e.downcast_ref::<String>());
        std::process::exit(4);
    }
    tr.flush();
}

pub fn silence_panics() {
    if std::env::var("HARNESS_SHOW_PANICS").is_ok() {
        return;
    }
    panic::set_hook(Box::new(|_| {}));
}

/// Run a closure, turning a panic into `Err(())`.
pub fn catch<R>(f: impl FnOnce() -> R) -> Result<R, ()> {
    panic::catch_unwind(AssertUnwindSafe(f)).map_err(|_| ())
}

pub fn read_lines(path: &str) -> impl Iterator<Item = Value> {
    let f = File::open(path).unwrap_or_else(|e| panic!("cannot open {path}: {e}"));
    BufReader::new(f).lines().filter_map(|l| {
        let l = l.unwrap();
        if l.trim().is_empty() {
            None
        } else {
            Some(serde_json::from_str::<Value>(&l).unwrap_or_else(|e| panic!("bad json line: {e}: {l}")))
        }
    })
}

pub fn geti(v: &Value, k: &str) -> i64 {
    v.get(k).and_then(|x| x.as_i64()).unwrap_or(0)
}
pub fn gets<'a>(v: &'a Value, k: &str) -> &'a str {
    v.get(k).and_then(|x| x.as_str()).unwrap_or("")
}
pub fn getvs(v: &Value, k: &str) -> Vec<i64> {
    v.get(k)
        .and_then(|x| x.as_array())
        .map(|a| a.iter().map(|x| x.as_i64().unwrap_or(0)).collect())
        .unwrap_or_default()
}
