SPECIFICATION Spec
CONSTANTS
  NV = 3
  OwnerIds = {1, 2, 3}
  SubIds = {1, 2, 3, 4}
  WeakIds = {1, 2}
  GuardIds = {1, 2}
  Kinds = {"unique", "shared"}
  Depth = 40
CONSTRAINT BoundTree
INVARIANT PrintAtDepth
CHECK_DEADLOCK FALSE
