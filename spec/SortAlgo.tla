------------------------------- MODULE SortAlgo -------------------------------
(***************************************************************************)
(* Implementation-shaped transcription of sort.rs                          *)
(* (`handle_diff_and_update_buffered_vector`): Sort / SortBy / SortByKey   *)
(* keep the sorted view together with, for every item, its index in the    *)
(* unsorted source:  buf = sequence of [u |-> source index, v |-> value].  *)
(*                                                                         *)
(* `binary_search_by` may return ANY position of an equal element and      *)
(* imbl's `sort_by` need not be stable, so the transcription is a          *)
(* RELATION: Results(buf, d) is the set of all [buf, out] the code may     *)
(* produce.  MCSortAlgo checks that every member keeps the bookkeeping     *)
(* exact and rebuilds a sorted permutation; the conformance run checks     *)
(* that what the real code emitted is a member (otherwise DRIFT).          *)
(*                                                                         *)
(* Named deviation: the Truncate arm forwards the source's Truncate onto   *)
(* the sorted view as coded (finding D4); TruncateOK says exactly when     *)
(* that happens to be right.                                               *)
(***************************************************************************)
EXTENDS VecOps

CONSTANT SortKey(_)      \* items are compared by SortKey (ties = equal keys)

Cmp(a, b) == IF SortKey(a) < SortKey(b) THEN -1 ELSE IF SortKey(a) > SortKey(b) THEN 1 ELSE 0
E(u, v) == [u |-> u, v |-> v]
Vals(buf) == [j \in 1..Len(buf) |-> buf[j].v]
SortedBuf(buf) == \A j \in 1..(Len(buf) - 1) : Cmp(buf[j].v, buf[j + 1].v) <= 0

(* 0-based positions binary_search_by(|x| compare(x, nv)) may return on a sorted buf:         *)
(* any position of an element equal to nv (Ok), else the insertion point (Err)                *)
SearchPos(buf, nv) ==
    LET eq == {j \in 1..Len(buf) : Cmp(buf[j].v, nv) = 0} IN
    IF eq # {} THEN {j - 1 : j \in eq}
    ELSE {Cardinality({j \in 1..Len(buf) : Cmp(buf[j].v, nv) < 0})}

InsAt(sq, pos0, x) == SubSeq(sq, 1, pos0) \o <<x>> \o SubSeq(sq, pos0 + 1, Len(sq))
RemAt(sq, pos0) == SubSeq(sq, 1, pos0) \o SubSeq(sq, pos0 + 2, Len(sq))
Retag(buf, F(_)) == [j \in 1..Len(buf) |-> E(F(buf[j].u), buf[j].v)]
PosOfU(buf, u) == CHOOSE j \in 0..(Len(buf) - 1) : buf[j + 1].u = u     \* `expect`: exists by the bookkeeping invariant
HasU(buf, u) == \E j \in 1..Len(buf) : buf[j].u = u

Res(buf, out) == [buf |-> buf, out |-> out]

(* place one new item (tag u) at a position the search may return: PushFront / Insert / PushBack *)
PlaceOne(buf, u, nv) ==
    {IF p = 0 THEN Res(<<E(u, nv)>> \o buf, <<DPushFront(nv)>>)
     ELSE IF p # Len(buf) THEN Res(InsAt(buf, p, E(u, nv)), <<DInsert(p, nv)>>)
     ELSE Res(Append(buf, E(u, nv)), <<DPushBack(nv)>>)
     : p \in SearchPos(buf, nv)}

(* remove the item at sorted position p: PopFront / PopBack / Remove *)
TakeOut(buf, p) ==
    Res(RemAt(buf, p),
        IF p = 0 THEN <<DPopFront>> ELSE IF p = Len(buf) - 1 THEN <<DPopBack>> ELSE <<DRemove(p)>>)

(* all orders `sort_by` may leave the new values in: sorted by Cmp, ties in any order *)
Perms(S) == {f \in [1..Cardinality(S) -> S] : \A x \in S : \E j \in 1..Cardinality(S) : f[j] = x}
SortedOrders(items) ==     \* items: sequence of E(u, v)
    LET idx == 1..Len(items) IN
    {[j \in idx |-> items[f[j]]] : f \in {g \in Perms(idx) : \A j \in 1..(Len(items) - 1) : Cmp(items[g[j]].v, items[g[j + 1]].v) <= 0}}

RECURSIVE AppendLoop(_, _, _)
(* buf non-empty; news sorted; out = diffs so far *)
AppendLoop(buf, news, out) ==
    IF news = <<>> THEN {Res(buf, out)}
    ELSE LET nv == news[1] IN
         IF Cmp(nv.v, buf[Len(buf)].v) >= 0
         THEN {Res(buf \o news, Append(out, DAppend(Vals(news))))}           \* fast path: everything left is appended
         ELSE UNION {LET b2 == InsAt(buf, p, nv)
                         o2 == Append(out, IF p = 0 THEN DPushFront(nv.v) ELSE DInsert(p, nv.v))
                     IN AppendLoop(b2, Tail(news), o2)
                     : p \in SearchPos(buf, nv.v) \ {Len(buf)}}

Results(buf, d) ==
    CASE d.k = "Append" ->
            LET tagged == [j \in 1..Len(d.vs) |-> E(Len(buf) + j - 1, d.vs[j])] IN
            UNION {IF buf = <<>> THEN {Res(news, <<DAppend(Vals(news))>>)} ELSE AppendLoop(buf, news, <<>>)
                   : news \in SortedOrders(tagged)}
      [] d.k = "Clear" -> {Res(<<>>, <<DClear>>)}
      [] d.k = "PushFront" -> LET Inc(u) == u + 1 IN PlaceOne(Retag(buf, Inc), 0, d.v)
      [] d.k = "PushBack" -> PlaceOne(buf, Len(buf), d.v)
      [] d.k = "Insert" -> LET Sh(u) == IF u >= d.i THEN u + 1 ELSE u IN PlaceOne(Retag(buf, Sh), d.i, d.v)
      [] d.k = "PopFront" ->
            LET p == PosOfU(buf, 0)
                Dec(u) == u - 1
                r == TakeOut(buf, p)
            IN {Res(Retag(r.buf, Dec), r.out)}
      [] d.k = "PopBack" -> {TakeOut(buf, PosOfU(buf, Len(buf) - 1))}
      [] d.k = "Remove" ->
            LET p == PosOfU(buf, d.i)
                Sh(u) == IF u > d.i THEN u - 1 ELSE u
                r == TakeOut(buf, p)
            IN {Res(Retag(r.buf, Sh), r.out)}
      [] d.k = "Set" ->
            LET old == PosOfU(buf, d.i)
                item == E(d.i, d.v)
            IN {IF old < new
                THEN (IF old = new - 1 THEN Res([buf EXCEPT ![old + 1] = item], <<DSet(old, d.v)>>)
                      ELSE Res(InsAt(RemAt(buf, old), new - 1, item), <<DRemove(old), DInsert(new - 1, d.v)>>))
                ELSE IF old = new THEN Res([buf EXCEPT ![new + 1] = item], <<DSet(new, d.v)>>)
                ELSE Res(InsAt(RemAt(buf, old), new, item), <<DRemove(old), DInsert(new, d.v)>>)
                : new \in SearchPos(buf, d.v)}
      [] d.k = "Truncate" ->
            {Res(SelectSeq(buf, LAMBDA e : e.u < d.i), <<DTruncate(d.i)>>)}       \* as coded: the length is forwarded (D4)
      [] d.k = "Reset" ->
            LET tagged == [j \in 1..Len(d.vs) |-> E(j - 1, d.vs[j])] IN
            {Res(news, <<DReset(Vals(news))>>) : news \in SortedOrders(tagged)}

(***************************************************************************)
(* What every possible result must satisfy                                 *)
(***************************************************************************)
(* the bookkeeping of a source s: sorted, and item j is tagged with a source index holding that value, bijectively *)
BufOf(buf, s) ==
    /\ Len(buf) = Len(s) /\ SortedBuf(buf)
    /\ \A j \in 1..Len(buf) : buf[j].u \in 0..(Len(s) - 1) /\ s[buf[j].u + 1] = buf[j].v
    /\ \A i, j \in 1..Len(buf) : i # j => buf[i].u # buf[j].u

SortedView(v) == \A j \in 1..(Len(v) - 1) : Cmp(v[j], v[j + 1]) <= 0

(* from bookkeeping buf of source s, input d: every possible result keeps the bookkeeping exact and the emitted *)
(* diffs, applied to the old view, give the new buffer's values: a sorted permutation of the new source         *)
StepOK(buf, s, d) ==
    LET s2 == Apply(d, s) IN
    \A r \in Results(buf, d) :
        /\ BufOf(r.buf, s2)
        /\ AllApplicable(r.out, Vals(buf)) /\ ApplyAll(r.out, Vals(buf)) = Vals(r.buf)

(* finding D4: forwarding Truncate{n} is right exactly when the items with source index >= n are the last items of the view *)
TruncateOK(buf, n) == \A j \in 1..Len(buf) : (buf[j].u >= n) => (\A k \in j..Len(buf) : buf[k].u >= n)
=============================================================================
