------------------------------- MODULE VecOps -------------------------------
(***************************************************************************)
(* Pure operators on sequences and VectorDiff records.                     *)
(*                                                                         *)
(* A diff is a record with a uniform shape                                 *)
(*     [k |-> kind, i |-> index-or-length (0-based, as in Rust),           *)
(*      v |-> value, vs |-> sequence of values]                            *)
(* Unused fields carry 0 / <<>>.  This is the single definition of what a  *)
(* VectorDiff means; every other module (Vec, Adapters, the Trace* and     *)
(* Gen* modules) uses these operators and adds no semantics of its own.    *)
(***************************************************************************)
EXTENDS Integers, Sequences, FiniteSets

Min(a, b) == IF a < b THEN a ELSE b
Max(a, b) == IF a > b THEN a ELSE b

Kinds == {"Append", "Clear", "PushFront", "PushBack", "PopFront", "PopBack",
          "Insert", "Set", "Remove", "Truncate", "Reset"}

D(k, i, v, vs) == [k |-> k, i |-> i, v |-> v, vs |-> vs]

DAppend(vs)    == D("Append", 0, 0, vs)
DClear         == D("Clear", 0, 0, <<>>)
DPushFront(v)  == D("PushFront", 0, v, <<>>)
DPushBack(v)   == D("PushBack", 0, v, <<>>)
DPopFront      == D("PopFront", 0, 0, <<>>)
DPopBack       == D("PopBack", 0, 0, <<>>)
DInsert(i, v)  == D("Insert", i, v, <<>>)
DSet(i, v)     == D("Set", i, v, <<>>)
DRemove(i)     == D("Remove", i, 0, <<>>)
DTruncate(n)   == D("Truncate", n, 0, <<>>)
DReset(vs)     == D("Reset", 0, 0, vs)

(***************************************************************************)
(* Applicability in the sense of properties C06/C09-C11: an index in range *)
(* and no pop from an empty replica.                                       *)
(***************************************************************************)
Applicable(d, s) ==
    CASE d.k \in {"PopFront", "PopBack"} -> Len(s) > 0
      [] d.k = "Insert"                  -> d.i <= Len(s)
      [] d.k \in {"Set", "Remove"}       -> d.i < Len(s)
      [] OTHER                           -> TRUE

(***************************************************************************)
(* VectorDiff::apply panics exactly for Insert/Set/Remove beyond the end   *)
(* (C18).  Pops on an empty vector and Truncate beyond the end are no-ops. *)
(***************************************************************************)
ApplyPanics(d, s) ==
    CASE d.k = "Insert"            -> d.i > Len(s)
      [] d.k \in {"Set", "Remove"} -> d.i >= Len(s)
      [] OTHER                     -> FALSE

InsertAt0(s, i, v) == SubSeq(s, 1, i) \o <<v>> \o SubSeq(s, i + 1, Len(s))
RemoveAt0(s, i)    == SubSeq(s, 1, i) \o SubSeq(s, i + 2, Len(s))

Apply(d, s) ==
    CASE d.k = "Append"    -> s \o d.vs
      [] d.k = "Clear"     -> <<>>
      [] d.k = "PushFront" -> <<d.v>> \o s
      [] d.k = "PushBack"  -> Append(s, d.v)
      [] d.k = "PopFront"  -> IF s = <<>> THEN s ELSE Tail(s)
      [] d.k = "PopBack"   -> IF s = <<>> THEN s ELSE SubSeq(s, 1, Len(s) - 1)
      [] d.k = "Insert"    -> InsertAt0(s, d.i, d.v)
      [] d.k = "Set"       -> [s EXCEPT ![d.i + 1] = d.v]
      [] d.k = "Remove"    -> RemoveAt0(s, d.i)
      [] d.k = "Truncate"  -> SubSeq(s, 1, Min(d.i, Len(s)))
      [] d.k = "Reset"     -> d.vs

RECURSIVE ApplyAll(_, _)
ApplyAll(ds, s) == IF ds = <<>> THEN s ELSE ApplyAll(Tail(ds), Apply(Head(ds), s))

(* TRUE iff every diff of ds is applicable at its turn *)
RECURSIVE AllApplicable(_, _)
AllApplicable(ds, s) ==
    IF ds = <<>> THEN TRUE
    ELSE Applicable(Head(ds), s) /\ AllApplicable(Tail(ds), Apply(Head(ds), s))

(* 1-based index of the first inapplicable diff, 0 if none *)
RECURSIVE FirstInapplicable(_, _, _)
FirstInapplicable(ds, s, n) ==
    IF ds = <<>> THEN 0
    ELSE IF ~Applicable(Head(ds), s) THEN n
    ELSE FirstInapplicable(Tail(ds), Apply(Head(ds), s), n + 1)

(* the sequence of intermediate states s1, s2, ... after each diff *)
RECURSIVE States(_, _)
States(ds, s) ==
    IF ds = <<>> THEN <<>>
    ELSE LET t == Apply(Head(ds), s) IN <<t>> \o States(Tail(ds), t)

MapSeq(s, F(_)) == [j \in 1..Len(s) |-> F(s[j])]
MapDiff(d, F(_)) == [k |-> d.k, i |-> d.i,
                     v |-> IF d.k \in {"PushFront", "PushBack", "Insert", "Set"} THEN F(d.v) ELSE d.v,
                     vs |-> MapSeq(d.vs, F)]

(***************************************************************************)
(* View functions: what each adapter must present (C09 - C11).             *)
(***************************************************************************)
HeadView(s, n) == SubSeq(s, 1, Min(n, Len(s)))
TailView(s, n) == SubSeq(s, Len(s) - Min(n, Len(s)) + 1, Len(s))
SkipView(s, c) == SubSeq(s, Min(c, Len(s)) + 1, Len(s))
FilterView(s, P(_)) == SelectSeq(s, P)
FilterMapView(s, P(_), F(_)) == MapSeq(SelectSeq(s, P), F)

IsSortedBy(v, Le(_, _)) == \A j \in 1..(Len(v) - 1) : Le(v[j], v[j + 1])

(* multiset equality of two integer sequences *)
Count(s, x) == Cardinality({j \in 1..Len(s) : s[j] = x})
Range(s) == {s[j] : j \in 1..Len(s)}
SamePerm(v, s) ==
    /\ Len(v) = Len(s)
    /\ \A x \in Range(v) \cup Range(s) : Count(v, x) = Count(s, x)

NextPow2(n) == CHOOSE p \in {1, 2, 4, 8, 16, 32, 64, 128, 256, 512, 1024} :
                   p >= n /\ \A q \in {1, 2, 4, 8, 16, 32, 64, 128, 256, 512, 1024} : q >= n => p <= q
=============================================================================
