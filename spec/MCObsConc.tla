----------------------------- MODULE MCObsConc -----------------------------
EXTENDS ObsConc, Json
(* one line per complete interleaving: the schedule and the programs *)
PrintSchedule == Quiescent => PrintT(<<"B", ToJson([sched |-> sched, progs |-> [t \in Threads |-> prog0[t]] ])>>)
=============================================================================
