------------------------------- MODULE ObsAsync -------------------------------
(***************************************************************************)
(* The async-lock flavour of the observable (C16).                         *)
(*                                                                         *)
(* Every call is a future.  With the lock free a future completes on its   *)
(* first poll with exactly the effect and result of the synchronous call   *)
(* (the actions of Obs.tla, unchanged).  What is new is waiting:           *)
(*                                                                         *)
(* tokio's RwLock is a FIFO-fair semaphore.  A future that cannot take the *)
(* lock on its poll joins the queue `q`; nobody overtakes a queued waiter  *)
(* (a reader arriving while a writer waits queues behind it).  Whenever    *)
(* the lock is released the queue is served from its head: every waiter    *)
(* that can be satisfied is GRANTED the lock at once -- it owns it from    *)
(* that moment although it has not been polled yet -- and its waker is     *)
(* woken; the first waiter that cannot be satisfied stops the service.     *)
(* A granted waiter completes on its next poll and releases the lock (the  *)
(* subscriber's poll and the writer calls hold it only inside the poll).   *)
(*                                                                         *)
(* Waiters: a subscriber polled through the stream / next() / next_ref()   *)
(* (`get_lock` in subscriber/async_lock.rs), a writer call started while   *)
(* the lock is taken, and the SECOND acquisition of next_ref(): it first    *)
(* marks the update as observed under one read lock, releases it, and then *)
(* locks again to hand out the guard; a writer queued behind the           *)
(* subscriber gets in between, and next_ref() then returns the writer's    *)
(* value (stage 2).                                                        *)
(*                                                                         *)
(* While somebody waits only the guard holder, the waiters and newly       *)
(* arriving polls / writer calls move (NextAsync); the queue is bounded by *)
(* MaxQ.                                                                   *)
(***************************************************************************)
EXTENDS Obs

CONSTANTS FutIds, MaxQ,
          TwoStage    \* subset of BOOLEAN: which next() implementations the exploration considers (see PollWaiting)

VARIABLES q,          \* the lock's wait queue: sequence of waiters, head first
          granted,    \* waiters that own the lock but have not been polled since
          futs        \* [FutIds -> pending writer call or NoFut]

avars == <<q, granted, futs>>
allvars == <<vars, avars>>
acore == <<core, avars>>

(* next() and next_ref() of the async flavour are the same two-stage future; the stream polls in one stage *)
TwoStageVias == {"PollNext", "PollNextRef"}

(* a waiter: subscriber s polled through `via` (stage 2 = next_ref's second acquisition) or writer future f *)
WSub(s, via, st) == [t |-> "s", id |-> s, via |-> via, st |-> st]
WFut(f)          == [t |-> "f", id |-> f, via |-> "", st |-> 1]

NoFut == [kind |-> "none", o |-> 0, a |-> 0]
PendingFuts == {f \in FutIds : futs[f].kind # "none"}
QSet == {q[i] : i \in 1..Len(q)}
Waiting == QSet \cup granted
WaitingSubs == {w.id : w \in {x \in Waiting : x.t = "s"}}
(* compatibility names: who waits / who is owed a wake-up because the lock was handed to it *)
lockWait == WaitingSubs
lwoken == {w.id : w \in {x \in granted : x.t = "s"}}
fwoken == {w.id : w \in {x \in granted : x.t = "f"}}
Quiet == Waiting = {} /\ PendingFuts = {}

WaiterOf(s) == CHOOSE w \in Waiting : w.t = "s" /\ w.id = s
FutWaiter(f) == WFut(f)

(* the lock as the semaphore sees it: guards handed out plus grants not yet picked up *)
ReadersHeld(gs, G) == {g \in GuardIds : gs[g].t = "r"} # {} \/ \E w \in G : w.t = "s"
WriterHeld(gs, G)  == {g \in GuardIds : gs[g].t = "w"} # {} \/ \E w \in G : w.t = "f"
Grantable(w, gs, G) == IF w.t = "s" THEN ~WriterHeld(gs, G) ELSE ~WriterHeld(gs, G) /\ ~ReadersHeld(gs, G)

(* serve the queue from its head *)
RECURSIVE Serve(_, _, _)
Serve(qq, G, gs) == IF qq # <<>> /\ Grantable(Head(qq), gs, G) THEN Serve(Tail(qq), G \cup {Head(qq)}, gs)
                    ELSE <<qq, G>>

(* a new acquisition succeeds at once iff nobody is queued and the lock admits it *)
ReadNow  == q = <<>> /\ ~WriterHeld(guards, granted)
WriteNow == q = <<>> /\ ~WriterHeld(guards, granted) /\ ~ReadersHeld(guards, granted)

AInit == Init /\ q = <<>> /\ granted = {} /\ futs = [f \in FutIds |-> NoFut]

(* a subscriber polled while it cannot read-lock: queued, nothing of the observable is touched *)
PollBlocked(s, via) ==
    /\ s \in subs /\ ~SubBorrowed(s) /\ via \in PollVias
    /\ s \notin WaitingSubs /\ ~ReadNow /\ Len(q) < MaxQ
    /\ q' = Append(q, WSub(s, via, 1))
    /\ armed' = [armed EXCEPT ![s] = FALSE]        \* the version waker is not registered by this poll
    /\ owed' = owed \ {s} /\ woken' = woken \ {s}
    /\ ret' = RPending
    /\ hist' = Append(hist, H(via, s, 0, 0, 0))
    /\ UNCHANGED <<kind, val, ver, owners, weaks, subs, obs, unseen, registered, guards, granted, futs>>

(* release by waiter w: the lock goes back and the queue is served; result <<queue, granted>> *)
Release(w, gs) == Serve(q, granted \ {w}, gs)

(* a waiting subscriber polled again (same call) *)
(* `two`: whether this call locks a second time after finding an update (next_ref() must, to hand out the guard; next() *)
(* does so today but could as well clone the value under the first lock -- the property does not care, so both are    *)
(* behaviours of the specification and the trace specification follows whichever the implementation did)              *)
PollWaiting(s, via, two) ==
    /\ s \in WaitingSubs
    /\ LET w == WaiterOf(s) IN
       /\ w.via = via
       /\ hist' = Append(hist, H(via, s, 0, 0, 0))
       /\ IF w \notin granted
          THEN /\ ret' = RPending                                  \* still queued
               /\ UNCHANGED <<core, avars>>
          ELSE IF w.st = 1
          THEN \* it owns a read lock: the poll proper; then the lock is released and the queue served;
               \* next_ref() then locks a second time to hand out the guard
               /\ PollEffect(s)
               /\ LET r == PollResult(s)
                      sv == Release(w, guards)
                      relock == via \in TwoStageVias /\ r.t = "Some"
                      canNow == sv[1] = <<>> /\ ~WriterHeld(guards, sv[2])
                  IN IF relock /\ ~canNow /\ (two \/ via = "PollNextRef")
                     THEN q' = Append(sv[1], WSub(s, via, 2)) /\ granted' = sv[2] /\ ret' = RPending
                     ELSE q' = sv[1] /\ granted' = sv[2] /\ ret' = r
               /\ UNCHANGED <<kind, val, ver, owners, weaks, subs, guards, futs>>
          ELSE \* stage 2 of next_ref(): whatever is current now is handed out and marked as observed
               /\ obs' = [obs EXCEPT ![s] = ver]
               /\ unseen' = [unseen EXCEPT ![s] = FALSE]
               /\ ret' = RSome(val)
               /\ LET sv == Release(w, guards) IN q' = sv[1] /\ granted' = sv[2]
               /\ UNCHANGED <<kind, val, ver, owners, weaks, subs, armed, registered, woken, owed, guards, futs>>

(* the one point where the two admissible implementations of next() differ: a granted next() finds an update and a *)
(* second acquisition would have to queue                                                                        *)
AtChoicePoint(s, via) ==
    /\ s \in WaitingSubs /\ via = "PollNext"
    /\ LET w == WaiterOf(s) IN
       /\ w \in granted /\ w.st = 1 /\ w.via = via
       /\ PollResult(s).t = "Some"
       /\ LET sv == Release(w, guards) IN ~(sv[1] = <<>> /\ ~WriterHeld(guards, sv[2]))

WriterKinds == {"Set", "SetIfNotEq", "Update"}

StartWriter(o, f, k, a) ==
    /\ o \in owners /\ ~WriteNow /\ k \in WriterKinds /\ a \in Vals /\ Len(q) < MaxQ
    /\ f \in FutIds \ PendingFuts
    /\ futs' = [futs EXCEPT ![f] = [kind |-> k, o |-> o, a |-> a]]
    /\ q' = Append(q, WFut(f))
    /\ ret' = RPending
    /\ hist' = Append(hist, H("Start" \o k, o, a, 0, f))
    /\ UNCHANGED <<core, granted>>

(* the effect of the completed writer call *)
WriterEffect(c) ==
    CASE c.kind = "Set" -> val' = c.a /\ Notify /\ ret' = RVal(val)
      [] c.kind = "SetIfNotEq" -> IF c.a # val THEN val' = c.a /\ Notify /\ ret' = RVal(val)
                                  ELSE UNCHANGED val /\ NoNotify /\ ret' = RNil
      [] OTHER -> val' = (val + c.a) % NV /\ Notify /\ ret' = RNil

PollFut(f) ==
    /\ f \in PendingFuts
    /\ hist' = Append(hist, H("PollFut", f, 0, 0, 0))
    /\ IF WFut(f) \in granted
       THEN /\ WriterEffect(futs[f])
            /\ futs' = [futs EXCEPT ![f] = NoFut]
            /\ LET sv == Release(WFut(f), guards) IN q' = sv[1] /\ granted' = sv[2]
            /\ UNCHANGED <<kind, owners, weaks, subs, obs, armed, guards>>
       ELSE /\ ret' = RPending
            /\ UNCHANGED <<core, avars>>

(* dropping a guard releases the lock: the queue is served *)
DropGuardA(g) ==
    /\ DropGuard(g)
    /\ LET sv == Serve(q, granted, [guards EXCEPT ![g] = NoGuard]) IN q' = sv[1] /\ granted' = sv[2]
    /\ UNCHANGED futs

Plain(A) == A /\ UNCHANGED avars

(* everything Obs can do, while nobody waits on the lock *)
QuietNext ==
    /\ Quiet
    /\ \/ Plain(\E w \in Writers, a \in Vals :
                   \/ Set(w[1], w[2], a) \/ SetIfNotEq(w[1], w[2], a) \/ Update(w[1], w[2], a))
       \/ Plain(\E o \in OwnerIds :
                   \/ OwnerGet(o) \/ DropOwner(o)
                   \/ \E n \in NewSub : Subscribe(o, n) \/ SubscribeReset(o, n)
                   \/ \E n \in NewOwner : CloneOwner(o, n)
                   \/ \E g \in NewGuard : OwnerRead(o, g) \/ OwnerTryRead(o, g) \/ OwnerWrite(o, g) \/ OwnerTryWrite(o, g))
       \/ Plain(\E g \in GuardIds : GuardGet(g))
       \/ \E g \in GuardIds : DropGuardA(g)
       \/ Plain(\E s \in SubIds :
                   \/ \E via \in PollVias : Poll(s, via)
                   \/ NextNow(s) \/ SubGet(s) \/ Reset(s) \/ DropSub(s)
                   \/ \E g \in NewGuard : SubRead(s, g))
       \/ \E s \in SubIds, via \in PollVias : PollBlocked(s, via)
       \/ \E o \in OwnerIds, f \in {Smallest(FutIds \ PendingFuts)}, k \in WriterKinds, a \in Vals : StartWriter(o, f, k, a)

(* somebody waits: the guard holder, the waiters and newly arriving polls / writer calls move *)
WaitingNext ==
    /\ ~Quiet
    /\ \/ \E g \in GuardIds : DropGuardA(g)
       \/ Plain(\E g \in GuardIds : GuardGet(g))
       \/ Plain(\E g \in WriteGuards, a \in Vals : Set("g", g, a))
       \/ \E f \in FutIds : PollFut(f)
       \/ \E s \in WaitingSubs, two \in TwoStage : PollWaiting(s, WaiterOf(s).via, two)
       \/ \E s \in SubIds \ WaitingSubs, via \in PollVias : PollBlocked(s, via)
       \/ Plain(\E s \in SubIds \ WaitingSubs, via \in PollVias : ReadNow /\ Poll(s, via))
       \/ \E o \in OwnerIds, f \in {Smallest(FutIds \ PendingFuts)}, k \in WriterKinds, a \in Vals :
             f \in FutIds /\ StartWriter(o, f, k, a)

ANext == QuietNext \/ WaitingNext
ASpec == AInit /\ [][ANext]_allvars

(***************************************************************************)
(* C16 *)
ATypeOK == /\ q \in Seq([t : {"s", "f"}, id : SubIds \cup FutIds, via : PollVias \cup {""}, st : {1, 2}])
           /\ granted \subseteq [t : {"s", "f"}, id : SubIds \cup FutIds, via : PollVias \cup {""}, st : {1, 2}]
(* a granted writer owns the lock alone; a granted reader excludes writers *)
GrantExclusion ==
    \A w \in granted : IF w.t = "f" THEN granted = {w} /\ LiveGuards = {} ELSE WriteGuards = {} /\ \A x \in granted : x.t = "s"
(* "woken when the lock is released": the queue is always served as far as possible *)
EagerService == q # <<>> => ~Grantable(Head(q), guards, granted)
(* bookkeeping: nobody waits twice, every pending writer call waits, only live subscribers wait *)
WaitersConsistent ==
    /\ \A i, j \in 1..Len(q) : i # j => <<q[i].t, q[i].id>> # <<q[j].t, q[j].id>>
    /\ \A w \in granted : w \notin QSet /\ \A x \in QSet : <<x.t, x.id>> # <<w.t, w.id>>
    /\ \A f \in FutIds : (f \in PendingFuts) <=> (WFut(f) \in Waiting)
    /\ WaitingSubs \subseteq subs
(* compatibility with the single-waiter formulation *)
LockWaitersWoken == lwoken \subseteq lockWait
WokenWriterCompletes == \A f \in fwoken : LiveGuards = {}
WokenReaderProceeds == lwoken # {} => CanRead
=============================================================================
