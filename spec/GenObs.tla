------------------------------- MODULE GenObs -------------------------------
(* Behaviour generation from Obs.tla (spec -> implementation direction).   *)
(*  - GenObsTree.cfg : every behaviour of exactly Depth operations          *)
(*  - GenObsEdge.cfg : one behaviour per transition of the reachable state  *)
(*                     graph (history hidden by the VIEW, shortest prefix)  *)
(*  - GenObsSim.cfg  : random walks (tlc -simulate), printed at Depth or at *)
(*                     a dead end                                           *)
EXTENDS Obs, Json
CONSTANT Depth
View == core
Bound == Len(hist) <= Depth
PrintAtDepth == Len(hist) = Depth + 1 => PrintT(<<"B", ToJson(hist)>>)
BoundTree == Len(hist) <= Depth + 1
Edge == PrintT(<<"B", ToJson(hist')>>)

(* Wake / readiness core for COMPLETE trees: the implementation keeps per-subscriber state the model does   *)
(* not distinguish (a clone and a fresh subscriber are the same model state), so every path over a small   *)
(* alphabet is generated, not just one path per model transition.                                          *)
NextWake ==
    \/ Set("o", 1, 1) \/ UpdateIf("o", 1, 1, FALSE) \/ DropOwner(1)
    \/ \E n \in NewSub : Subscribe(1, n)
    \/ \E s \in SubIds :
          \/ Poll(s, "Poll") \/ NextNow(s) \/ Reset(s)
          \/ \E n \in NewSub : CloneSub(s, n)
SpecWake == Init /\ [][NextWake]_vars
(* the same tree below a first subscriber (every interesting path starts with subscribe): one level deeper at the same cost *)
SpecWakeSub == Init /\ [][IF Len(hist) = 1 THEN \E n \in NewSub : Subscribe(1, n) ELSE NextWake]_vars
=============================================================================
