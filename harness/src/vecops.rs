//! C18: run the real `VectorDiff::map` and `VectorDiff::apply` on each case
//! `{s, d:{k,i,v,vs}, f}` and record what they did.

use eyeball_im::VectorDiff;
use imbl::Vector;
use serde_json::{json, Value};

use crate::{util::*, vec::diff_json};

/// The same contents in different internal shapes of imbl's Vector:
/// 0 collected, 1 pushed to the front in reverse order, 2 built 70 items longer and popped from the front.
fn build(vals: impl DoubleEndedIterator<Item = Elem>, b: i64) -> Vector<Elem> {
    match b {
        1 => {
            let mut v = Vector::new();
            for e in vals.rev() {
                v.push_front(e);
            }
            v
        }
        2 => {
            let mut v: Vector<Elem> = (0..70).map(Elem::new).chain(vals).collect();
            for _ in 0..70 {
                v.pop_front();
            }
            v
        }
        _ => vals.collect(),
    }
}

fn diff_of(d: &Value, b: i64) -> VectorDiff<Elem> {
    let i = geti(d, "i") as usize;
    let v = geti(d, "v");
    let vs = || -> Vector<Elem> { build(getvs(d, "vs").into_iter().map(Elem::new), b) };
    match gets(d, "k") {
        "Append" => VectorDiff::Append { values: vs() },
        "Clear" => VectorDiff::Clear,
        "PushFront" => VectorDiff::PushFront { value: Elem::new(v) },
        "PushBack" => VectorDiff::PushBack { value: Elem::new(v) },
        "PopFront" => VectorDiff::PopFront,
        "PopBack" => VectorDiff::PopBack,
        "Insert" => VectorDiff::Insert { index: i, value: Elem::new(v) },
        "Set" => VectorDiff::Set { index: i, value: Elem::new(v) },
        "Remove" => VectorDiff::Remove { index: i },
        "Truncate" => VectorDiff::Truncate { length: i },
        "Reset" => VectorDiff::Reset { values: vs() },
        k => panic!("harness: unknown diff kind {k}"),
    }
}

fn mapf(f: i64) -> impl FnMut(Elem) -> Elem {
    move |e: Elem| match f {
        0 => Elem::new(e.v),
        1 => Elem::new(e.v + 1),
        2 => Elem::new(7),
        _ => Elem::new(e.v.rem_euclid(2)),
    }
}

pub fn run(path: &str, out: &str) {
    let tr = Tracer::create(out);
    let tr2 = tr.clone();
    let path = path.to_string();
    with_watchdog(tr, 20, move || {
        for (n, c) in read_lines(&path).enumerate() {
            let s: Vec<i64> = getvs(&c, "s");
            let f = geti(&c, "f");
            let d = &c["d"];
            let b = c.get("b").and_then(|x| x.as_i64()).unwrap_or(0);
            // apply(d, s)
            let mut v1: Vector<Elem> = build(s.iter().map(|x| Elem::new(*x)), b);
            let r1 = catch(|| diff_of(d, b).apply(&mut v1));
            // map(d, f), then apply to map(s, f)
            let md = catch(|| diff_of(d, b).map(mapf(f)));
            let (mdj, mres, mpanic) = match md {
                Ok(md) => {
                    let mdj = diff_json(&md);
                    let mut v2: Vector<Elem> = build(s.iter().map(|x| Elem::new(*x)).map(mapf(f)), b);
                    let r2 = catch(|| md.apply(&mut v2));
                    (mdj, if r2.is_ok() { seq_json(v2.iter()) } else { json!([]) }, if r2.is_ok() { 0 } else { 1 })
                }
                Err(_) => (json!({"k": "PanicInMap", "i": 0, "v": 0, "vs": []}), json!([]), 1),
            };
            tr2.emit(&json!({"e": "Case", "run": n as i64 + 1, "s": s, "d": d, "f": f,
                             "panic": if r1.is_ok() {0} else {1},
                             "res": if r1.is_ok() { seq_json(v1.iter()) } else { json!([]) },
                             "md": mdj, "mres": mres, "mpanic": mpanic}));
        }
    });
}
