------------------------------- MODULE GenVec -------------------------------
(* Behaviour generation from Vec.tla.  Focused next-state relations keep   *)
(* the branching factor on what each property quantifies over.             *)
EXTENDS Vec, Json
CONSTANTS Depth,
          InitLens,   \* lengths of the initial contents (appended before anybody subscribes)
          PreSubs     \* numbers of subscribers that exist from the start (1: plain; 2: plain + batched)
View == core
Bound == Len(hist) <= Depth
BoundTree == Len(hist) <= Depth + 1
PrintAtDepth == Len(hist) = Depth + 1 => PrintT(<<"B", ToJson(hist)>>)
Edge == PrintT(<<"B", ToJson(hist')>>)

SubNext == \E s \in SubIds : (\E k \in {0, 1} : Subscribe(s, k)) \/ (\E k \in {0, 1, 2} : Poll(s, k))
SubNextFull == SubNext \/ (\E s \in SubIds : DropSub(s))
TxnNext == TxnBegin \/ TxnCommit \/ TxnRollback \/ TxnDrop

(* in-range mutators only (C05/C06/C08: what subscribers receive) *)
MutInRange(w) ==
    \/ PushBack(w, fresh) \/ PushFront(w, fresh) \/ PopBack(w) \/ PopFront(w) \/ Clear(w)
    \/ \E i \in 0..Len(Cur(w)) : \/ Insert(w, i, fresh) \/ Truncate(w, i)
    \/ \E i \in 0..(Len(Cur(w)) - 1) : SetAt(w, i, fresh, "Set") \/ RemoveIdx(w, i, "Remove")
    \/ \E k \in 0..2 : AppendK(w, k)

EntriesSome(w) == \E via \in {0, 1}, n \in 1..MaxDecs : \E decs \in [1..n -> 0..4] : Entries(w, via, decs)

NextStreams == MutInRange("v") \/ SubNextFull \/ DropVector
SpecStreams == Init /\ [][NextStreams]_vars

NextTxn == MutInRange("v") \/ MutInRange("t") \/ TxnNext \/ SubNext \/ EntriesSome("t")
SpecTxn == Init /\ [][NextTxn]_vars

NextAll == MutNext \/ EntriesNext \/ TxnNext \/ SubNextFull \/ DropVector
SpecAll == Init /\ [][NextAll]_vars

(* C17: all indices incl. out of range, entry traversal decisions, no subscribers needed *)
NextMut == MutNext \/ EntriesNext \/ TxnNext \/ (\E k \in {0, 1} : Subscribe(1, k)) \/ Poll(1, 0)
SpecMut == Init /\ [][NextMut]_vars
(* Start from a non-empty vector with subscribers already attached: deep   *)
(* transaction / stream scenarios become reachable within a small depth.   *)
PInit ==
    /\ \E n0 \in InitLens, c \in Caps, k \in PreSubs :
          /\ cap = c /\ vals = [j \in 1..n0 |-> j] /\ fresh = n0 + 1
          /\ subs = 1..k
          /\ hist = <<[op |-> "New", t |-> "v", s |-> 0, i |-> c, v |-> 0, vs |-> [j \in 1..n0 |-> j], k |-> k]>>
    /\ alive = TRUE /\ txn = NoTxn /\ chan = <<>>
    /\ sflav = [s \in SubIds |-> IF s = 2 THEN "batched" ELSE "plain"]
    /\ snext = [s \in SubIds |-> 0] /\ srest = [s \in SubIds |-> <<>>]
    /\ replica = [s \in SubIds |-> vals] /\ gmsgs = [s \in SubIds |-> <<>>]
    /\ cands = [s \in SubIds |-> {<<0, FALSE>>}]
    /\ armed = [s \in SubIds |-> FALSE] /\ owed = {}
    /\ ret = RNil /\ out = <<>>

(* small transaction bodies; every prefix committed, dropped or rolled back; polled afterwards *)
TxnBodyOp ==
    \/ PushBack("t", fresh) \/ PushFront("t", fresh) \/ PopFront("t") \/ PopBack("t") \/ Clear("t")
    \/ \E i \in {0, 1} : Insert("t", i, fresh) \/ SetAt("t", i, fresh, "Set") \/ RemoveIdx("t", i, "Remove") \/ Truncate("t", i)
    \/ \E d \in {1, 2, 3} : Entries("t", 0, <<d>>)
NextTxnSmall ==
    \/ txn.open /\ (TxnBodyOp \/ TxnCommit \/ TxnDrop \/ TxnRollback)
    \/ ~txn.open /\ (TxnBegin \/ PushBack("v", fresh) \/ PopFront("v") \/ (\E s \in SubIds : Poll(s, 0) \/ Poll(s, 1)))
SpecTxnSmall == PInit /\ [][NextTxnSmall]_vars

(* deeper bodies over a core of operations (emptying, clearing, refilling) *)
TxnCoreOp ==
    \/ PushBack("t", fresh) \/ PopFront("t") \/ PopBack("t") \/ Clear("t") \/ Truncate("t", 0)
    \/ SetAt("t", 0, fresh, "Set") \/ Entries("t", 0, <<2>>)
NextTxnCore ==
    \/ txn.open /\ (TxnCoreOp \/ TxnCommit \/ TxnDrop \/ TxnRollback)
    \/ ~txn.open /\ (TxnBegin \/ (\E s \in SubIds : Poll(s, 0) \/ Poll(s, 1)))
SpecTxnCore == PInit /\ [][NextTxnCore]_vars

(* long vectors (imbl's Vector changes its representation at 64 items; a library change may be size-dependent): *)
(* random walks from long initial contents with appends of 40 / 70 items, every mutator at every index          *)
(* every mutator at a few representative indices (walks over long vectors: keeps the branching small) *)
IdxSome(n) == {0, 1, n \div 2, n - 2, n - 1, n, 63, 64, 65} \cap 0..n
MutSome(w) ==
    \/ PushBack(w, fresh) \/ PushFront(w, fresh) \/ PopBack(w) \/ PopFront(w) \/ Clear(w)
    \/ \E i \in IdxSome(Len(Cur(w))) : \/ Insert(w, i, fresh) \/ Truncate(w, i)
    \/ \E i \in IdxSome(Len(Cur(w)) - 1) : SetAt(w, i, fresh, "Set") \/ RemoveIdx(w, i, "Remove")
    \/ \E k \in {0, 1, 40, 70} : AppendK(w, k)
NextBig == MutSome("v") \/ MutSome("t") \/ TxnNext \/ SubNextFull
SpecBig == PInit /\ [][NextBig]_vars

(* long transactions (a change may treat long batches differently): a queue-like body of pushes and pops at both ends,   *)
(* committed only once at least LongTxn diffs are recorded, then polled                                                   *)
LongTxn == 17
NextTxnLong ==
    \/ txn.open /\ (PushBack("t", fresh) \/ PopFront("t") \/ PushFront("t", fresh) \/ PopBack("t") \/ SetAt("t", 0, fresh, "Set"))
    \/ txn.open /\ Len(txn.batch) >= LongTxn /\ TxnCommit
    \/ ~txn.open /\ (TxnBegin \/ (\E s \in SubIds : Poll(s, 0)))
SpecTxnLong == PInit /\ [][NextTxnLong]_vars

(* long backlogs: nobody polls for the first BacklogLen operations (single updates and small transactions), then everybody does *)
BacklogLen == 45
NextBacklog ==
    IF Len(hist) <= BacklogLen
    THEN \/ txn.open /\ (PushBack("t", fresh) \/ PopFront("t") \/ TxnCommit)
         \/ ~txn.open /\ (PushBack("v", fresh) \/ PopFront("v") \/ SetAt("v", 0, fresh, "Set") \/ TxnBegin)
    ELSE \/ txn.open /\ TxnCommit
         \/ ~txn.open /\ ((\E s \in SubIds : Poll(s, 0) \/ Poll(s, 1)) \/ DropVector)
SpecBacklog == PInit /\ [][NextBacklog]_vars

(* end of stream: what is still unread when the vector is dropped (single updates, a commit of several diffs), *)
(* polled completely or one item at a time                                                                     *)
NextEnd ==
    \/ txn.open /\ (PushBack("t", fresh) \/ TxnCommit)
    \/ ~txn.open /\ (PushBack("v", fresh) \/ TxnBegin \/ DropVector \/ (\E s \in SubIds, k \in {0, 1} : Poll(s, k)))
SpecEnd == PInit /\ [][NextEnd]_vars

(* subscriber life cycle around transactions: subscribers dropped (also the last one) while a transaction is open,  *)
(* the vector dropped with unread messages, commits nobody listens to                                               *)
NextTxnSubs ==
    \/ txn.open /\ (PushBack("t", fresh) \/ SetAt("t", 0, fresh, "Set") \/ PopFront("t") \/ Clear("t")
                    \/ TxnCommit \/ TxnDrop \/ TxnRollback)
    \/ ~txn.open /\ (TxnBegin \/ PushBack("v", fresh) \/ DropVector \/ (\E k \in {0, 1}, n \in SubIds \ subs : Subscribe(n, k)))
    \/ \E s \in SubIds : DropSub(s) \/ Poll(s, 0)
SpecTxnSubs == PInit /\ [][NextTxnSubs]_vars

(* lag and end of stream: a few message-producing calls, a transaction, the drop, polls with every budget *)
LagOp == PushBack("v", fresh) \/ PopFront("v") \/ SetAt("v", 0, fresh, "Set")
NextLag ==
    \/ txn.open /\ (PushBack("t", fresh) \/ PopFront("t") \/ TxnCommit)
    \/ ~txn.open /\ (LagOp \/ TxnBegin \/ DropVector \/ (\E s \in SubIds, k \in {0, 1} : Poll(s, k)))
SpecLag == PInit /\ [][NextLag]_vars

(* deep lag: one or two subscribers far behind (capacities whose rounded buffer is larger than the capacity) *)
NextLagDeep ==
    \/ PushBack("v", fresh) \/ SetAt("v", 0, fresh, "Set")
    \/ (\E s \in SubIds, k \in {0, 1} : Poll(s, k))
SpecLagDeep == PInit /\ [][NextLagDeep]_vars

(* streams from a pre-populated vector: every mutator, lag, drop *)
SpecStreamsPre == PInit /\ [][NextStreams]_vars

=============================================================================
