SPECIFICATION Spec
CONSTANTS
  NV = 3
  OwnerIds = {1, 2}
  SubIds = {1, 2}
  WeakIds = {1}
  GuardIds = {1, 2}
  Kinds = {"unique", "shared"}
  Depth = 5
VIEW View
CONSTRAINT Bound
ACTION_CONSTRAINT Edge
CHECK_DEADLOCK FALSE
