//! Concurrent driver (C02, C03, C04): thread programs on clones of one
//! `SharedObservable`, its subscribers and weak references.
//!
//! Input: a sequential history produced by GenLin.tla: `New`, a setup prefix,
//! `Go`, then operations whose handle id `h` names the thread that owns the
//! handle.  Every call of the concurrent part is bracketed by `inv` / `resp`
//! records stamped from one global atomic counter (never wall-clock time).
//! A subscriber thread that is parked with its wake flag clear after all other
//! threads have finished can never make progress again and is recorded as
//! `Stuck` (no timeout decides a verdict).
//!
//! With a schedule (`sched` field: list of thread ids) a director releases the
//! threads one pause point at a time (hooks of `cfg(eyeball_verif)`).

use std::{
    collections::BTreeMap,
    future::Future,
    mem,
    pin::Pin,
    sync::{
        atomic::{AtomicBool, AtomicI64, AtomicU64, Ordering},
        Arc, Condvar, Mutex,
    },
    task::{Context, Poll, Wake, Waker},
    thread,
    time::{Duration, Instant},
};

use eyeball::{Observable, ObservableReadGuard, ObservableWriteGuard, SharedObservable, Subscriber, WeakObservable};
use serde_json::{json, Value};

use crate::util::*;

static STAMP: AtomicU64 = AtomicU64::new(1);
fn stamp() -> u64 {
    STAMP.fetch_add(1, Ordering::SeqCst)
}

struct ParkWaker {
    woken: AtomicBool,
    thread: thread::Thread,
}
impl Wake for ParkWaker {
    fn wake(self: Arc<Self>) {
        self.woken.store(true, Ordering::SeqCst);
        self.thread.unpark();
    }
    fn wake_by_ref(self: &Arc<Self>) {
        self.woken.store(true, Ordering::SeqCst);
        self.thread.unpark();
    }
}

/// Shared per-thread status the main thread inspects for stuck detection.
#[derive(Default)]
struct Status {
    done: AtomicBool,
    /// parked inside a blocking `next()` with this waker
    waiting: Mutex<Option<Arc<ParkWaker>>>,
    abandon: AtomicBool,
}

enum G {
    R(#[allow(dead_code)] ObservableReadGuard<'static, Elem>),
    W(ObservableWriteGuard<'static, Elem>),
}

struct Hands {
    // drop order: guard first
    guard: Option<G>,
    sub: Option<Box<Subscriber<Elem>>>,
    owner: Option<Box<SharedObservable<Elem>>>,
    /// the unique `Observable` (kind "unique": only thread 1 has it)
    uowner: Option<Box<Observable<Elem>>>,
    weak: Option<WeakObservable<Elem>>,
}

/// Hands are moved into their thread before any guard exists.
struct SendHands(Hands);
unsafe impl Send for SendHands {}

fn ret(t: &str, v: i64) -> Value {
    json!({"t": t, "v": v})
}

/// Does thread-local state allow this op? (otherwise it is skipped and not logged: in this interleaving
/// the handle it needs was never obtained)
fn can(h: &Hands, op: &str) -> bool {
    let g = h.guard.is_some();
    if g && !matches!(op, "GSet" | "GuardGet" | "DropGuard") {
        // never lock again while holding a guard (std RwLock self-deadlock hazard)
        return false;
    }
    match op {
        "Set" | "SetIfNotEq" | "Update" | "Get" => h.owner.is_some() || h.uowner.is_some(),
        "Subscribe" => (h.owner.is_some() || h.uowner.is_some()) && h.sub.is_none(),
        "DropOwner" if h.uowner.is_some() => !g,
        "Downgrade" => h.owner.is_some() && h.weak.is_none(),
        "Read" | "Write" | "TryReadNow" | "TryWriteNow" | "DropOwner" => h.owner.is_some() && !g,
        "GSet" => matches!(h.guard, Some(G::W(_))),
        "GuardGet" | "DropGuard" => g,
        "Upgrade" => h.owner.is_none() && h.weak.is_some(),
        "NextNow" | "Reset" | "DropSub" | "SubRead" | "PollNext" => h.sub.is_some() && !g,
        "SubGet" => h.sub.is_some(),
        _ => false,
    }
}

/// Execute one op of thread `t`. None = the op's handle does not exist (skipped, not logged).
fn exec(h: &mut Hands, o: &Value, st: &Status) -> Option<Value> {
    let op = gets(o, "op");
    let a = geti(o, "a");
    if let Some(u) = h.uowner.as_mut() {
        // the unique Observable: same calls through its own API
        match op {
            "Set" => return Some(ret("Val", Observable::set(u, Elem::new(a)).v)),
            "SetIfNotEq" => {
                return Some(match Observable::set_if_not_eq(u, Elem::new(a)) {
                    Some(p) => ret("Val", p.v),
                    None => ret("Nil", 0),
                })
            }
            "Update" => {
                Observable::update(u, |e| e.v = (e.v + a).rem_euclid(1000));
                return Some(ret("Nil", 0));
            }
            "Get" => return Some(ret("Val", Observable::get(u).v)),
            "Subscribe" => {
                if h.sub.is_some() {
                    return None;
                }
                h.sub = Some(Box::new(Observable::subscribe(u)));
                return Some(ret("Nil", 0));
            }
            "DropOwner" => {
                drop(h.uowner.take()?);
                return Some(ret("Nil", 0));
            }
            _ => {}
        }
    }
    Some(match op {
        "Set" => ret("Val", h.owner.as_ref()?.set(Elem::new(a)).v),
        "SetIfNotEq" => match h.owner.as_ref()?.set_if_not_eq(Elem::new(a)) {
            Some(p) => ret("Val", p.v),
            None => ret("Nil", 0),
        },
        "Update" => {
            h.owner.as_ref()?.update(|e| e.v = (e.v + a).rem_euclid(1000));
            ret("Nil", 0)
        }
        "Get" => ret("Val", h.owner.as_ref()?.get().v),
        "DropOwner" => {
            if h.guard.is_some() {
                return None;
            }
            drop(h.owner.take()?);
            ret("Nil", 0)
        }
        "Read" => {
            if h.guard.is_some() {
                return None;
            }
            let g = unsafe { mem::transmute::<ObservableReadGuard<'_, Elem>, ObservableReadGuard<'static, Elem>>(h.owner.as_ref()?.read()) };
            let v = g.v;
            h.guard = Some(G::R(g));
            ret("Val", v)
        }
        "Write" => {
            if h.guard.is_some() {
                return None;
            }
            let g = unsafe { mem::transmute::<ObservableWriteGuard<'_, Elem>, ObservableWriteGuard<'static, Elem>>(h.owner.as_ref()?.write()) };
            let v = g.v;
            h.guard = Some(G::W(g));
            ret("Val", v)
        }
        "GSet" => match h.guard.as_mut()? {
            G::W(g) => ret("Val", ObservableWriteGuard::set(g, Elem::new(a)).v),
            _ => return None,
        },
        "GuardGet" => match h.guard.as_ref()? {
            G::R(g) => ret("Val", g.v),
            G::W(g) => ret("Val", g.v),
        },
        "DropGuard" => {
            drop(h.guard.take()?);
            ret("Nil", 0)
        }
        "TryReadNow" => {
            if h.guard.is_some() {
                return None;
            }
            match h.owner.as_ref()?.try_read() {
                Ok(g) => ret("Val", g.v),
                Err(_) => ret("Fail", 0),
            }
        }
        "TryWriteNow" => {
            if h.guard.is_some() {
                return None;
            }
            match h.owner.as_ref()?.try_write() {
                Ok(g) => ret("Val", g.v),
                Err(_) => ret("Fail", 0),
            }
        }
        "Subscribe" => {
            if h.sub.is_some() {
                return None;
            }
            h.sub = Some(Box::new(h.owner.as_ref()?.subscribe()));
            ret("Nil", 0)
        }
        "Downgrade" => {
            if h.weak.is_some() {
                return None;
            }
            h.weak = Some(h.owner.as_ref()?.downgrade());
            ret("Nil", 0)
        }
        "Upgrade" => {
            if h.owner.is_some() {
                return None;
            }
            match h.weak.as_ref()?.upgrade() {
                Some(o) => {
                    h.owner = Some(Box::new(o));
                    ret("Ok", 0)
                }
                None => ret("Fail", 0),
            }
        }
        "NextNow" => {
            if h.guard.is_some() {
                return None;
            }
            ret("Val", h.sub.as_mut()?.next_now().v)
        }
        "SubGet" => ret("Val", h.sub.as_ref()?.get().v),
        "Reset" => {
            if h.guard.is_some() {
                return None;
            }
            h.sub.as_mut()?.reset();
            ret("Nil", 0)
        }
        "DropSub" => {
            if h.guard.is_some() {
                return None;
            }
            drop(h.sub.take()?);
            ret("Nil", 0)
        }
        "SubRead" => {
            if h.guard.is_some() {
                return None;
            }
            let g = unsafe { mem::transmute::<ObservableReadGuard<'_, Elem>, ObservableReadGuard<'static, Elem>>(h.sub.as_ref()?.read()) };
            let v = g.v;
            h.guard = Some(G::R(g));
            ret("Val", v)
        }
        // blocking next(): park until the waker given to the last Pending poll is woken
        "PollNext" => {
            if h.guard.is_some() {
                return None;
            }
            let sub = h.sub.as_mut()?;
            let mut fut = sub.next();
            loop {
                let pw = Arc::new(ParkWaker { woken: AtomicBool::new(false), thread: thread::current() });
                let waker = Waker::from(pw.clone());
                let mut cx = Context::from_waker(&waker);
                match Pin::new(&mut fut).poll(&mut cx) {
                    Poll::Ready(Some(e)) => break ret("Some", e.v),
                    Poll::Ready(None) => break ret("End", 0),
                    Poll::Pending => {
                        *st.waiting.lock().unwrap() = Some(pw.clone());
                        while !pw.woken.load(Ordering::SeqCst) {
                            if st.abandon.load(Ordering::SeqCst) {
                                zombie();
                            }
                            thread::park_timeout(Duration::from_millis(20));
                        }
                        if st.abandon.load(Ordering::SeqCst) {
                            // woken by the teardown of a run that already recorded this thread as Stuck
                            zombie();
                        }
                        *st.waiting.lock().unwrap() = None;
                        hook_point("woken");
                    }
                }
            }
        }
        other => panic!("harness: unknown threads op {other}"),
    })
}

/// A thread recorded as Stuck never returns a result and never touches anything again.
fn zombie() -> ! {
    MY_TID.with(|m| m.set(0));
    loop {
        thread::park();
    }
}

// ---------------------------------------------------------------------------
// Director: pause points (cfg(eyeball_verif) hooks in crate eyeball)
// ---------------------------------------------------------------------------

#[derive(Default)]
struct DirState {
    /// thread id -> name of the point it is stopped at
    at: BTreeMap<i64, &'static str>,
    /// thread ids allowed to pass their current point
    release: BTreeMap<i64, bool>,
}

#[derive(Default)]
struct Director {
    st: Mutex<DirState>,
    cv: Condvar,
    /// once the schedule is exhausted every thread runs freely: points no longer stop anybody
    free: AtomicBool,
}

thread_local! {
    static MY_TID: std::cell::Cell<i64> = const { std::cell::Cell::new(0) };
}

impl Director {
    fn point(&self, name: &'static str) {
        let tid = MY_TID.with(|t| t.get());
        if tid == 0 || self.free.load(Ordering::SeqCst) {
            return;
        }
        let mut g = self.st.lock().unwrap();
        g.at.insert(tid, name);
        self.cv.notify_all();
        while !g.release.get(&tid).copied().unwrap_or(false) && !self.free.load(Ordering::SeqCst) {
            g = self.cv.wait(g).unwrap();
        }
        g.release.insert(tid, false);
        g.at.remove(&tid);
    }
}

struct Log {
    /// one buffer per thread (uncontended), merged by stamp at the end of the run
    bufs: Mutex<Vec<Arc<Mutex<Vec<(u64, Value)>>>>>,
}

static ALIGN: AtomicBool = AtomicBool::new(false);
/// Race mode: the k-th calls of all threads are released together (a spin barrier per step with a short
/// time-out, so a parked or finished thread never stalls the others).
pub fn set_align(on: bool) {
    ALIGN.store(on, Ordering::SeqCst);
}
static JITTER_NS: AtomicU64 = AtomicU64::new(0);
pub fn set_jitter(ns: u64) {
    JITTER_NS.store(ns, Ordering::SeqCst);
}
/// Busy-wait a pseudo-random time below the jitter bound (xorshift; no wall clock in any verdict).
fn jitter(state: &mut u64) {
    let j = JITTER_NS.load(Ordering::Relaxed);
    if j == 0 {
        return;
    }
    *state ^= *state << 13;
    *state ^= *state >> 7;
    *state ^= *state << 17;
    let ns = *state % j;
    let t0 = Instant::now();
    while (t0.elapsed().as_nanos() as u64) < ns {
        std::hint::spin_loop();
    }
}

pub fn run_history(tr: &Tracer, run: i64, ops: &[Value], sched: Option<&Vec<i64>>) {
    let first = &ops[0];
    assert_eq!(gets(first, "op"), "New");
    let init = geti(first, "a");
    tr.emit(&json!({"e": "Begin", "run": run, "layer": "lin", "init": init, "directed": sched.is_some(),
                    "shared": if geti(first, "b") != 0 {1} else {0}}));
    let shared = geti(first, "b") != 0;
    let mut hands: BTreeMap<i64, Hands> = BTreeMap::new();
    let mk = || Hands { guard: None, sub: None, owner: None, uowner: None, weak: None };
    hands.insert(1, mk());
    // a subscriber the main thread keeps for itself: at the end it tells whether the observable was
    // really closed (a stuck thread with a closed observable lost a wake-up; with an open one, nobody closed)
    let mut probe;
    if shared {
        let root = SharedObservable::new(Elem::new(init));
        probe = root.subscribe();
        hands.get_mut(&1).unwrap().owner = Some(Box::new(root));
    } else {
        let root = Observable::new(Elem::new(init));
        probe = Observable::subscribe(&root);
        hands.get_mut(&1).unwrap().uowner = Some(Box::new(root));
    }
    let go = ops.iter().position(|o| gets(o, "op") == "Go").expect("history needs Go");
    // ---- setup (sequential, main thread)
    for o in &ops[1..go] {
        let n = geti(o, "n");
        let h1 = hands.get(&1).unwrap();
        let (owner, sub, weak) = match (gets(o, "op"), h1.owner.as_ref(), h1.uowner.as_ref()) {
            ("CloneOwner", Some(src), _) => (Some(Box::new((**src).clone())), None, None),
            ("Subscribe", Some(src), _) => (None, Some(Box::new(src.subscribe())), None),
            ("SubscribeReset", Some(src), _) => (None, Some(Box::new(src.subscribe_reset())), None),
            ("Downgrade", Some(src), _) => (None, None, Some(src.downgrade())),
            ("Subscribe", None, Some(u)) => (None, Some(Box::new(Observable::subscribe(u))), None),
            ("SubscribeReset", None, Some(u)) => (None, Some(Box::new(Observable::subscribe_reset(u))), None),
            (other, _, _) => panic!("harness: unexpected setup op {other}"),
        };
        let h = hands.entry(n).or_insert_with(mk);
        if owner.is_some() {
            h.owner = owner;
        }
        if sub.is_some() {
            h.sub = sub;
        }
        if weak.is_some() {
            h.weak = weak;
        }
        tr.emit(&json!({"e": "setup", "run": run, "op": o["op"], "h": geti(o, "h"), "n": n}));
    }
    // ---- programs
    let mut progs: BTreeMap<i64, Vec<Value>> = BTreeMap::new();
    for o in &ops[go + 1..] {
        progs.entry(geti(o, "h")).or_default().push(o.clone());
    }
    for t in progs.keys() {
        hands.entry(*t).or_insert_with(mk);
    }
    let log = Arc::new(Log { bufs: Mutex::new(Vec::new()) });
    let director = Arc::new(Director::default());
    if sched.is_some() {
        let d = director.clone();
        eyeball_hook_install(Some(d));
    }
    let maxlen = progs.values().map(|p| p.len()).max().unwrap_or(0);
    let expected: Arc<Vec<i64>> = Arc::new((0..maxlen).map(|k| progs.values().filter(|p| p.len() > k).count() as i64).collect());
    let arrivals: Arc<Vec<AtomicI64>> = Arc::new((0..maxlen).map(|_| AtomicI64::new(0)).collect());
    let mut joins = Vec::new();
    let mut statuses: BTreeMap<i64, Arc<Status>> = BTreeMap::new();
    let start = Arc::new(AtomicI64::new(0));
    let nthreads = progs.len() as i64;
    for (t, prog) in progs {
        let sh = SendHands(hands.remove(&t).unwrap());
        let st = Arc::new(Status::default());
        statuses.insert(t, st.clone());
        let expected = expected.clone();
        let arrivals = arrivals.clone();
        let mybuf: Arc<Mutex<Vec<(u64, Value)>>> = Arc::new(Mutex::new(Vec::new()));
        log.bufs.lock().unwrap().push(mybuf.clone());
        let start = start.clone();
        let mut rng: u64 = 0x9E3779B97F4A7C15 ^ ((run as u64) << 8) ^ (t as u64);
        let directed = sched.is_some();
        let dir = director.clone();
        joins.push((t, thread::spawn(move || {
            let sh = sh;
            let mut h = sh.0;
            if directed {
                MY_TID.with(|m| m.set(t));
            } else {
                // rendezvous so that the programs really overlap
                start.fetch_add(1, Ordering::SeqCst);
                let t0 = Instant::now();
                while start.load(Ordering::SeqCst) < nthreads && t0.elapsed() < Duration::from_millis(200) {
                    std::hint::spin_loop();
                }
            }
            // a guard still held at the end of the program is released by one more (logged) call
            let mut prog = prog;
            prog.push(json!({"op": "DropGuard", "h": t, "a": 0, "b": 0, "n": 0, "synthetic": 1}));
            let align = !directed && ALIGN.load(Ordering::Relaxed);
            for (k, o) in prog.iter().enumerate() {
                if directed && geti(o, "synthetic") == 0 {
                    dir.point("op");
                }
                if align && k < arrivals.len() {
                    arrivals[k].fetch_add(1, Ordering::SeqCst);
                    let t0 = Instant::now();
                    while arrivals[k].load(Ordering::SeqCst) < expected[k] && t0.elapsed() < Duration::from_micros(30) {
                        std::hint::spin_loop();
                    }
                }
                if !can(&h, gets(o, "op")) {
                    continue; // skipped: handle absent in this interleaving
                }
                let inv = json!({"e": "inv", "t": t, "op": o["op"], "a": geti(o, "a")});
                jitter(&mut rng);
                let s_inv = stamp();
                mybuf.lock().unwrap().push((s_inv, inv));
                let r = catch(|| exec(&mut h, o, &st));
                let s_resp = stamp();
                let rv = match r {
                    Ok(Some(rv)) => rv,
                    Ok(None) => ret("Skipped", 0),
                    Err(_) => ret("Panic", 0),
                };
                let panicked = rv["t"] == "Panic";
                mybuf.lock().unwrap().push((s_resp, json!({"e": "resp", "t": t, "ret": rv})));
                if panicked {
                    break;
                }
            }
            if directed {
                MY_TID.with(|m| m.set(0));
            }
            st.done.store(true, Ordering::SeqCst);
            // the handles stay alive until every thread has finished: dropping them here would be an
            // unlogged DropOwner / DropSub
            SendHands(h)
        })));
    }
    // ---- director
    let tdbg = Instant::now();
    if let Some(s) = sched {
        direct(&director, s, &statuses);
        let t1 = tdbg.elapsed();
        // let everything run freely to the end
        release_all(&director, &statuses);
        if std::env::var("HARNESS_DEBUG").is_ok() {
            eprintln!("run {run}: direct {:?} release_all {:?}", t1, tdbg.elapsed() - t1);
        }
    }
    // ---- join with stuck detection
    let mut stuck: Vec<i64> = Vec::new();
    let t0 = Instant::now();
    loop {
        let mut all = true;
        let mut any_progress_possible = false;
        for (_t, st) in statuses.iter() {
            if st.done.load(Ordering::SeqCst) {
                continue;
            }
            all = false;
            let w = st.waiting.lock().unwrap().clone();
            match w {
                Some(pw) if !pw.woken.load(Ordering::SeqCst) => {}
                _ => any_progress_possible = true, // running, or woken and about to run
            }
        }
        if all {
            break;
        }
        if !any_progress_possible {
            // every unfinished thread is parked with a clear flag: a state that cannot change.
            // confirm once more after a short pause (a thread between poll and park has waiting == None)
            thread::sleep(Duration::from_millis(5));
            let still = statuses.iter().all(|(_, st)| {
                st.done.load(Ordering::SeqCst)
                    || matches!(st.waiting.lock().unwrap().clone(), Some(pw) if !pw.woken.load(Ordering::SeqCst))
            });
            if still {
                for (t, st) in statuses.iter() {
                    if !st.done.load(Ordering::SeqCst) {
                        st.abandon.store(true, Ordering::SeqCst);
                        stuck.push(*t);
                    }
                }
                break;
            }
        }
        if t0.elapsed() > Duration::from_secs(20) {
            // a real deadlock / livelock in the code under test: data, not a tool error
            for (t, st) in statuses.iter() {
                if !st.done.load(Ordering::SeqCst) {
                    stuck.push(-*t);
                }
            }
            break;
        }
        thread::sleep(Duration::from_micros(200));
    }
    if std::env::var("HARNESS_DEBUG").is_ok() {
        eprintln!("run {run}: joined-phase at {:?}", tdbg.elapsed());
    }
    let mut keep: Vec<SendHands> = Vec::new();
    for (t, j) in joins {
        if !stuck.contains(&t) && !stuck.contains(&-t) {
            if let Ok(h) = j.join() {
                keep.push(h);
            }
        }
    }
    if sched.is_some() {
        eyeball_hook_install(None);
    }
    let mut evs: Vec<(u64, Value)> = Vec::new();
    for b in log.bufs.lock().unwrap().iter() {
        evs.extend(b.lock().unwrap().iter().cloned());
    }
    evs.sort_by_key(|(s, _)| *s);
    for (_, mut e) in evs {
        e["run"] = json!(run);
        tr.emit(&e);
    }
    let closed = {
        use futures_core::Stream;
        let f = Flag::new();
        let w = waker_of(&f);
        let mut cx = Context::from_waker(&w);
        probe.reset();
        matches!(Pin::new(&mut probe).poll_next(&mut cx), Poll::Ready(None))
    };
    for t in &stuck {
        if *t > 0 {
            tr.emit(&json!({"e": "Stuck", "run": run, "t": t, "closed": closed}));
        } else {
            tr.emit(&json!({"e": "Hung", "run": run, "t": -t}));
        }
    }
    if std::env::var("HARNESS_DEBUG").is_ok() {
        eprintln!("run {run}: end at {:?} stuck={:?}", tdbg.elapsed(), stuck);
    }
    tr.emit(&json!({"e": "EndRun", "run": run, "ok": 1, "diverged": if sched.is_some() { DIVERGED.load(Ordering::SeqCst) } else { 0 }}));
    drop(keep);
}

// ---- director helpers -------------------------------------------------------

static CUR_DIRECTOR: Mutex<Option<Arc<Director>>> = Mutex::new(None);
/// A pause point of the harness itself (same mechanism as the library's hooks).
fn hook_point(name: &'static str) {
    let d = CUR_DIRECTOR.lock().unwrap().clone();
    if let Some(d) = d {
        d.point(name);
    }
}

fn eyeball_hook_install(d: Option<Arc<Director>>) {
    *CUR_DIRECTOR.lock().unwrap() = d.clone();
    #[cfg(eyeball_verif)]
    {
        match d {
            Some(d) => eyeball::verif::set_pause_hook(Some(Arc::new(move |name: &'static str| d.point(name)))),
            None => eyeball::verif::set_pause_hook(None),
        }
    }
    #[cfg(not(eyeball_verif))]
    let _ = d;
}

/// Wait until thread `t` is stopped at a point, is done, or is parked/blocked (grace period).
fn wait_settled(d: &Director, t: i64, st: &Status, grace_ms: u64) -> bool {
    let t0 = Instant::now();
    loop {
        if st.done.load(Ordering::SeqCst) {
            return true;
        }
        if d.st.lock().unwrap().at.contains_key(&t) {
            return true;
        }
        if matches!(st.waiting.lock().unwrap().clone(), Some(pw) if !pw.woken.load(Ordering::SeqCst)) {
            return true; // parked in next()
        }
        if t0.elapsed() > Duration::from_millis(grace_ms) {
            return false; // blocked on a real lock: diverged from the schedule, not a verdict
        }
        thread::sleep(Duration::from_micros(100));
    }
}

fn at_point(d: &Director, t: i64) -> bool {
    d.st.lock().unwrap().at.contains_key(&t)
}

static DIVERGED: AtomicI64 = AtomicI64::new(0);

fn direct(d: &Director, sched: &[i64], statuses: &BTreeMap<i64, Arc<Status>>) {
    DIVERGED.store(0, Ordering::SeqCst);
    for (step, t) in sched.iter().enumerate() {
        let Some(st) = statuses.get(t) else { continue };
        // the thread must be stopped at a point (it may still be on its way there, e.g. just woken)
        let t0 = Instant::now();
        while !at_point(d, *t) && !st.done.load(Ordering::SeqCst) {
            let parked = matches!(st.waiting.lock().unwrap().clone(), Some(pw) if !pw.woken.load(Ordering::SeqCst));
            let limit = if parked { 5 } else { 100 };
            if t0.elapsed() > Duration::from_millis(limit) {
                break;
            }
            thread::sleep(Duration::from_micros(50));
        }
        if !at_point(d, *t) {
            DIVERGED.fetch_add(1, Ordering::SeqCst);
            if std::env::var("HARNESS_DEBUG").is_ok() {
                eprintln!("diverged at step {step}: thread {t} not at a point (done={})", st.done.load(Ordering::SeqCst));
            }
            continue; // done, or blocked / parked: diverged from the schedule (not a verdict)
        }
        {
            let mut g = d.st.lock().unwrap();
            g.release.insert(*t, true);
            d.cv.notify_all();
        }
        // wait until it left the point ...
        let t0 = Instant::now();
        while d.st.lock().unwrap().release.get(t).copied().unwrap_or(false) && t0.elapsed() < Duration::from_millis(100) {
            thread::sleep(Duration::from_micros(50));
        }
        // ... and settled again (next point, finished, parked; or blocked on a real lock: grace period)
        if !wait_settled(d, *t, st, 30) {
            DIVERGED.fetch_add(1, Ordering::SeqCst);
            if std::env::var("HARNESS_DEBUG").is_ok() {
                let w = st.waiting.lock().unwrap().clone();
                eprintln!("diverged at step {step}: thread {t} did not settle: waiting={} woken={:?} at={:?}", w.is_some(),
                          w.map(|p| p.woken.load(Ordering::SeqCst)), d.st.lock().unwrap().at.get(t));
            }
        }
    }
}

fn release_all(d: &Director, statuses: &BTreeMap<i64, Arc<Status>>) {
    d.free.store(true, Ordering::SeqCst);
    {
        let _g = d.st.lock().unwrap();
        d.cv.notify_all();
    }
    // keep releasing every stopped thread until all are done or parked
    let t0 = Instant::now();
    loop {
        let mut any = false;
        {
            let mut g = d.st.lock().unwrap();
            let stopped: Vec<i64> = g.at.keys().copied().collect();
            for t in stopped {
                g.release.insert(t, true);
                any = true;
            }
            if any {
                d.cv.notify_all();
            }
        }
        let all_quiet = statuses.iter().all(|(_, st)| {
            st.done.load(Ordering::SeqCst)
                || matches!(st.waiting.lock().unwrap().clone(), Some(pw) if !pw.woken.load(Ordering::SeqCst))
        });
        if all_quiet && !any {
            return;
        }
        if t0.elapsed() > Duration::from_secs(10) {
            return;
        }
        thread::sleep(Duration::from_micros(200));
    }
}

pub fn replay(path: &str, out: &str, repeat: usize) {
    let tr = Tracer::create(out);
    let tr2 = tr.clone();
    let path = path.to_string();
    with_watchdog(tr, 60, move || {
        let mut run = 0;
        for b in read_lines(&path) {
            // either a bare history (array) or {"hist": [...], "sched": [...]}
            let (ops, sched): (Vec<Value>, Option<Vec<i64>>) = if b.is_array() {
                (b.as_array().unwrap().clone(), None)
            } else {
                (b["hist"].as_array().expect("hist").clone(), Some(getvs(&b, "sched")))
            };
            for _ in 0..repeat.max(1) {
                run += 1;
                run_history(&tr2, run, &ops, sched.as_ref());
            }
        }
    });
}
