SPECIFICATION TraceSpec
CONSTANTS
  NV = 3
  OwnerIds = {1, 2, 3, 4}
  SubIds = {1, 2, 3, 4, 5, 6}
  WeakIds = {1, 2, 3}
  GuardIds = {1, 2, 3}
  Kinds = {"unique", "shared"}
  Flavor = "sync"
POSTCONDITION TraceAccepted
CHECK_DEADLOCK FALSE
