------------------------------- MODULE ObsConc -------------------------------
(***************************************************************************)
(* SharedObservable at LOCK / REFERENCE-COUNT granularity.                 *)
(*                                                                         *)
(* One process per thread; a step of a thread runs the code from one       *)
(* pause point (cfg(eyeball_verif) hook, or the start of a call) to the    *)
(* next one.  Because the director of the conformance harness lets exactly *)
(* one thread run at a time, such a segment is atomic with respect to the  *)
(* other threads, so the interleavings of this model are exactly the       *)
(* schedules the director can force on the real code.                      *)
(*                                                                         *)
(* Modelled as coded: the outer RwLock (rl / wl), the metadata lock (ml),  *)
(* the two strong counts (cState for the state Arc, cClones for the clone  *)
(* counter), version, waker list.  The deviation of the code from the      *)
(* ideal is a named constant:                                              *)
(*   DropDecisionAtomic = FALSE : SharedObservable::drop reads the clone   *)
(*       count, and releases its reference later (as coded before the fix);*)
(*   DropDecisionAtomic = TRUE  : giving up the reference and learning     *)
(*       "I was the last" is one atomic step (Arc::into_inner).            *)
(***************************************************************************)
EXTENDS Integers, Sequences, FiniteSets, TLC

CONSTANTS Threads, DropDecisionAtomic, ProgChoice  \* ProgChoice selects a family of thread programs

VARIABLES val, ver, wakers, woken,
          rl, wl, ml,                \* readers of the outer lock, its writer (0 = none), metadata lock holder (0 = none)
          cState, cClones,           \* strong counts
          owner, weak, subscribed,   \* per thread: holds an owner clone / a weak reference / a subscriber
          gheld,                     \* per thread: guard kept across calls: "none" | "r" | "w"
          obsv,                      \* per thread: observed version of its subscriber
          pc, prog, prog0, res,      \* per thread: pause point, remaining calls, the whole program, results of completed calls
          sched                      \* history: thread ids in the order they stepped

vars == <<val, ver, wakers, woken, rl, wl, ml, cState, cClones, owner, weak, subscribed, gheld, obsv, pc, prog, prog0, res, sched>>
core == <<val, ver, wakers, woken, rl, wl, ml, cState, cClones, owner, weak, subscribed, gheld, obsv, pc, prog, res>>

(* programs: sequences of call names *)
Menu(t) ==
    CASE ProgChoice = "drop2" ->   \* two clones dropped concurrently, a subscriber waits for the end
            (CASE t = 1 -> {<<"DropOwner">>, <<"Set", "DropOwner">>}
               [] t = 2 -> {<<"DropOwner">>}
               [] OTHER -> {<<"PollNext", "PollNext">>})
      [] ProgChoice = "dropup" ->  \* the last clone is dropped while a weak reference is upgraded
            (CASE t = 1 -> {<<"DropOwner">>}
               [] t = 2 -> {<<"Upgrade", "Set">>, <<"Upgrade">>}
               [] OTHER -> {<<"PollNext", "PollNext">>})
      [] ProgChoice = "setpoll" -> \* writers against a polling subscriber
            (CASE t = 1 -> {<<"Set">>, <<"Set", "Set">>}
               [] t = 2 -> {<<"Set", "DropOwner">>, <<"Subscribe", "PollNext">>}
               [] OTHER -> {<<"PollNext", "PollNext">>, <<"PollNext">>})
      [] ProgChoice = "guards" ->  \* a guard kept across calls against a writer / reader and a polling subscriber
            (CASE t = 1 -> {<<"Write", "GSet", "DropGuard">>, <<"Read", "DropGuard", "Set">>}
               [] t = 2 -> {<<"Set">>, <<"Get">>, <<"Set", "Get">>}
               [] OTHER -> {<<"PollNext">>})
      [] ProgChoice = "uniq" ->    \* the unique Observable (thread 1) is set / dropped against two polling subscribers
            (CASE t = 1 -> {<<"DropOwner">>, <<"Set", "DropOwner">>, <<"Set", "Set">>}
               [] t = 2 -> {<<"PollNext", "PollNext">>}
               [] OTHER -> {<<"PollNext", "PollNext">>, <<"PollNext">>})
      [] OTHER -> {<<>>}

IsUnique == ProgChoice = "uniq"
InitOwner(t) == CASE ProgChoice \in {"dropup", "uniq"} -> t = 1 [] OTHER -> t \in {1, 2}
InitWeak(t)  == ProgChoice = "dropup" /\ t = 2
InitSub(t)   == t = 3 \/ (IsUnique /\ t = 2)

Init ==
    /\ val = 0 /\ ver = 1 /\ wakers = {} /\ woken = {}
    /\ rl = {} /\ wl = 0 /\ ml = 0
    /\ owner = [t \in Threads |-> InitOwner(t)]
    /\ weak = [t \in Threads |-> InitWeak(t)]
    /\ subscribed = [t \in Threads |-> InitSub(t)]
    /\ cClones = Cardinality({t \in Threads : InitOwner(t)})
    /\ cState = Cardinality({t \in Threads : InitOwner(t)}) + Cardinality({t \in Threads : InitSub(t)})
    /\ gheld = [t \in Threads |-> "none"]
    /\ obsv = [t \in Threads |-> 1]
    /\ pc = [t \in Threads |-> "op"]
    /\ prog \in [Threads -> UNION {Menu(t) : t \in Threads}] /\ \A t \in Threads : prog[t] \in Menu(t)
    /\ prog0 = prog
    /\ res = [t \in Threads |-> <<>>]
    /\ sched = <<>>

(* results are integers: a value, or one of these codes *)
ROK == -2
RFAIL == -3
REND == -4
RPANIC == -1

Cur(t) == Head(prog[t])
(* finish the current call with result r *)
Finish(t, r) ==
    /\ prog' = [prog EXCEPT ![t] = Tail(@)]
    /\ res' = [res EXCEPT ![t] = Append(@, r)]
    /\ pc' = [pc EXCEPT ![t] = IF Len(prog[t]) = 1 THEN "done" ELSE "op"]

CanReadLock(t) == wl = 0
CanWriteLock(t) == wl = 0 /\ rl = {}

(* closing: version 0, all wakers drained and woken (needs the metadata lock) *)
CloseEffect == ver' = 0 /\ woken' = woken \cup wakers /\ wakers' = {}

(***************************** DropOwner ************************************)
(* op -> [decided_last | before_release] *)
(* Observable::drop (unique): close() unconditionally, without touching the outer lock *)
UDropStart(t) ==
    /\ IsUnique /\ pc[t] = "op" /\ Cur(t) = "DropOwner" /\ owner[t]
    /\ pc' = [pc EXCEPT ![t] = "uclose:before_meta_lock"]
    /\ UNCHANGED <<val, ver, wakers, woken, rl, wl, ml, cState, cClones, owner, weak, subscribed, gheld, obsv, prog, res>>

UDropClose(t) ==
    /\ pc[t] = "uclose:before_meta_lock" /\ ml = 0
    /\ CloseEffect
    /\ owner' = [owner EXCEPT ![t] = FALSE] /\ cState' = cState - 1 /\ cClones' = cClones - 1
    /\ Finish(t, ROK)
    /\ UNCHANGED <<val, rl, wl, ml, weak, subscribed, gheld, obsv>>

DropStart(t) ==
    /\ ~IsUnique /\ pc[t] = "op" /\ Cur(t) = "DropOwner" /\ owner[t] /\ gheld[t] = "none"
    /\ IF DropDecisionAtomic
       THEN (* the reference to the clone counter is given up here, atomically with the decision *)
            /\ cClones' = cClones - 1
            /\ pc' = [pc EXCEPT ![t] = IF cClones = 1 THEN "drop:decided_last" ELSE "drop:before_release"]
       ELSE /\ UNCHANGED cClones
            /\ pc' = [pc EXCEPT ![t] = IF cClones = 1 THEN "drop:decided_last" ELSE "drop:before_release"]
    /\ UNCHANGED <<val, ver, wakers, woken, rl, wl, ml, cState, owner, weak, subscribed, gheld, obsv, prog, res>>

(* decided_last -> close:before_meta_lock : try_read().unwrap() *)
DropTryRead(t) ==
    /\ pc[t] = "drop:decided_last"
    /\ IF wl = 0
       THEN /\ rl' = rl \cup {t} /\ pc' = [pc EXCEPT ![t] = "close:before_meta_lock"] /\ UNCHANGED <<prog, res, owner, cState, cClones>>
       ELSE (* try_read fails: unwrap panics inside drop; the handle's fields are still released *)
            /\ UNCHANGED rl
            /\ owner' = [owner EXCEPT ![t] = FALSE]
            /\ cState' = cState - 1 /\ cClones' = IF DropDecisionAtomic THEN cClones ELSE cClones - 1
            /\ prog' = [prog EXCEPT ![t] = <<>>] /\ res' = [res EXCEPT ![t] = Append(@, RPANIC)]
            /\ pc' = [pc EXCEPT ![t] = "done"]
    /\ UNCHANGED <<val, ver, wakers, woken, wl, ml, weak, subscribed, gheld, obsv>>

(* close:before_meta_lock -> drop:before_release *)
DropClose(t) ==
    /\ pc[t] = "close:before_meta_lock" /\ ml = 0
    /\ CloseEffect
    /\ rl' = rl \ {t}
    /\ pc' = [pc EXCEPT ![t] = "drop:before_release"]
    /\ UNCHANGED <<val, wl, ml, cState, cClones, owner, weak, subscribed, gheld, obsv, prog, res>>

(* drop:before_release -> next call : the two Arcs are released *)
DropRelease(t) ==
    /\ pc[t] = "drop:before_release"
    /\ owner' = [owner EXCEPT ![t] = FALSE]
    /\ cState' = cState - 1
    /\ cClones' = IF DropDecisionAtomic THEN cClones ELSE cClones - 1
    /\ Finish(t, ROK)
    /\ UNCHANGED <<val, ver, wakers, woken, rl, wl, ml, weak, subscribed, gheld, obsv>>

(******************************** Set ***************************************)
SetStart(t) ==      \* op -> set:locked (write lock acquired)
    /\ pc[t] = "op" /\ Cur(t) = "Set" /\ owner[t] /\ gheld[t] = "none" /\ CanWriteLock(t)
    /\ wl' = t /\ pc' = [pc EXCEPT ![t] = "set:locked"]
    /\ UNCHANGED <<val, ver, wakers, woken, rl, ml, cState, cClones, owner, weak, subscribed, gheld, obsv, prog, res>>

SetStore(t) ==      \* set:locked -> set:before_wake
    /\ pc[t] = "set:locked"
    /\ val' = 100 * t + Len(res[t]) + 1 /\ ver' = ver + 1
    /\ res' = [res EXCEPT ![t] = Append(@, val)]       \* the previous value is the result
    /\ pc' = [pc EXCEPT ![t] = "set:before_wake"]
    /\ UNCHANGED <<wakers, woken, rl, wl, ml, cState, cClones, owner, weak, subscribed, gheld, obsv, prog>>

SetWake(t) ==       \* set:before_wake -> next call
    /\ pc[t] = "set:before_wake"
    /\ woken' = woken \cup wakers /\ wakers' = {} /\ wl' = (IF gheld[t] = "w" THEN wl ELSE 0)
    /\ prog' = [prog EXCEPT ![t] = Tail(@)]
    /\ pc' = [pc EXCEPT ![t] = IF Len(prog[t]) = 1 THEN "done" ELSE "op"]
    /\ UNCHANGED <<val, ver, rl, ml, cState, cClones, owner, weak, subscribed, gheld, obsv, res>>

(****************************** guards kept across calls ********************)
WriteGuard(t) ==    \* SharedObservable::write(): no pause point inside; the guard stays alive after the call
    /\ pc[t] = "op" /\ Cur(t) = "Write" /\ owner[t] /\ gheld[t] = "none" /\ CanWriteLock(t)
    /\ wl' = t /\ gheld' = [gheld EXCEPT ![t] = "w"]
    /\ Finish(t, val)
    /\ UNCHANGED <<val, ver, wakers, woken, rl, ml, cState, cClones, owner, weak, subscribed, obsv>>

ReadGuard(t) ==
    /\ pc[t] = "op" /\ Cur(t) = "Read" /\ owner[t] /\ gheld[t] = "none" /\ CanReadLock(t)
    /\ rl' = rl \cup {t} /\ gheld' = [gheld EXCEPT ![t] = "r"]
    /\ Finish(t, val)
    /\ UNCHANGED <<val, ver, wakers, woken, wl, ml, cState, cClones, owner, weak, subscribed, obsv>>

DropGuardC(t) ==
    /\ pc[t] = "op" /\ Cur(t) = "DropGuard" /\ gheld[t] # "none"
    /\ IF gheld[t] = "w" THEN wl' = 0 /\ UNCHANGED rl ELSE rl' = rl \ {t} /\ UNCHANGED wl
    /\ gheld' = [gheld EXCEPT ![t] = "none"]
    /\ Finish(t, ROK)
    /\ UNCHANGED <<val, ver, wakers, woken, ml, cState, cClones, owner, weak, subscribed, obsv>>

GSetStart(t) ==     \* set through the write guard: op -> set:locked (the lock is already held)
    /\ pc[t] = "op" /\ Cur(t) = "GSet" /\ gheld[t] = "w"
    /\ pc' = [pc EXCEPT ![t] = "set:locked"]
    /\ UNCHANGED <<val, ver, wakers, woken, rl, wl, ml, cState, cClones, owner, weak, subscribed, gheld, obsv, prog, res>>

GetCall(t) ==       \* SharedObservable::get(): read lock, clone, unlock: no pause point
    /\ pc[t] = "op" /\ Cur(t) = "Get" /\ owner[t] /\ gheld[t] = "none" /\ CanReadLock(t)
    /\ Finish(t, val)
    /\ UNCHANGED <<val, ver, wakers, woken, rl, wl, ml, cState, cClones, owner, weak, subscribed, gheld, obsv>>

(* a thread that does not own a handle skips calls that need it (the driver does the same) *)
SkipCall(t) ==
    /\ pc[t] = "op"
    /\ \/ Cur(t) \in {"Set", "DropOwner", "Subscribe", "Write", "Read", "Get"} /\ ~owner[t]
       \/ Cur(t) \in {"Set", "Write", "Read", "Get", "DropOwner"} /\ owner[t] /\ gheld[t] # "none"
       \/ Cur(t) = "GSet" /\ gheld[t] # "w"
       \/ Cur(t) = "DropGuard" /\ gheld[t] = "none"
       \/ Cur(t) = "Upgrade" /\ (owner[t] \/ ~weak[t])
       \/ Cur(t) = "PollNext" /\ ~subscribed[t]
    /\ prog' = [prog EXCEPT ![t] = Tail(@)]
    /\ pc' = [pc EXCEPT ![t] = IF Len(prog[t]) = 1 THEN "done" ELSE "op"]
    /\ UNCHANGED <<val, ver, wakers, woken, rl, wl, ml, cState, cClones, owner, weak, subscribed, gheld, obsv, res>>

(****************************** PollNext ************************************)
PollStart(t) ==     \* op (or woken from park) -> poll:before_meta_lock (state read lock taken)
    /\ \/ pc[t] = "op" /\ Cur(t) = "PollNext" /\ subscribed[t]
       \/ pc[t] = "parked" /\ t \in woken
    /\ CanReadLock(t)
    /\ rl' = rl \cup {t} /\ woken' = woken \ {t}
    /\ pc' = [pc EXCEPT ![t] = "poll:before_meta_lock"]
    /\ UNCHANGED <<val, ver, wakers, wl, ml, cState, cClones, owner, weak, subscribed, gheld, obsv, prog, res>>

PollDecide(t) ==    \* poll:before_meta_lock -> result | poll:registered (metadata lock taken)
    /\ pc[t] = "poll:before_meta_lock" /\ ml = 0
    /\ IF ver = 0
       THEN /\ rl' = rl \ {t} /\ Finish(t, REND) /\ UNCHANGED <<wakers, obsv, ml>>
       ELSE IF obsv[t] < ver
       THEN /\ obsv' = [obsv EXCEPT ![t] = ver] /\ rl' = rl \ {t} /\ Finish(t, val) /\ UNCHANGED <<wakers, ml>>
       ELSE /\ wakers' = wakers \cup {t} /\ ml' = t
            /\ pc' = [pc EXCEPT ![t] = "poll:registered"] /\ UNCHANGED <<obsv, rl, prog, res>>
    /\ UNCHANGED <<val, ver, woken, wl, cState, cClones, owner, weak, subscribed, gheld>>

PollPark(t) ==      \* poll:registered -> parked (locks released, Pending returned, thread parks)
    /\ pc[t] = "poll:registered"
    /\ ml' = 0 /\ rl' = rl \ {t}
    /\ pc' = [pc EXCEPT ![t] = "parked"]
    /\ UNCHANGED <<val, ver, wakers, woken, wl, cState, cClones, owner, weak, subscribed, gheld, obsv, prog, res>>

(******************************* Upgrade ************************************)
UpgradeStart(t) ==  \* op -> upgrade:between | failed
    /\ pc[t] = "op" /\ Cur(t) = "Upgrade" /\ weak[t] /\ ~owner[t]
    /\ IF cState > 0
       THEN cState' = cState + 1 /\ pc' = [pc EXCEPT ![t] = "upgrade:between"] /\ UNCHANGED <<prog, res>>
       ELSE UNCHANGED cState /\ Finish(t, RFAIL)
    /\ UNCHANGED <<val, ver, wakers, woken, rl, wl, ml, cClones, owner, weak, subscribed, gheld, obsv>>

UpgradeFinish(t) == \* upgrade:between -> done
    /\ pc[t] = "upgrade:between"
    /\ IF cClones > 0
       THEN cClones' = cClones + 1 /\ owner' = [owner EXCEPT ![t] = TRUE] /\ Finish(t, ROK) /\ UNCHANGED cState
       ELSE cState' = cState - 1 /\ Finish(t, RFAIL) /\ UNCHANGED <<cClones, owner>>
    /\ UNCHANGED <<val, ver, wakers, woken, rl, wl, ml, weak, subscribed, gheld, obsv>>

(****************************** Subscribe ***********************************)
SubscribeStart(t) == \* op -> subscribe:after_version
    /\ pc[t] = "op" /\ Cur(t) = "Subscribe" /\ owner[t] /\ CanReadLock(t) /\ ml = 0   \* version() reads the metadata
    /\ obsv' = [obsv EXCEPT ![t] = ver]
    /\ pc' = [pc EXCEPT ![t] = "subscribe:after_version"]
    /\ UNCHANGED <<val, ver, wakers, woken, rl, wl, ml, cState, cClones, owner, weak, subscribed, gheld, prog, res>>

SubscribeFinish(t) ==
    /\ pc[t] = "subscribe:after_version"
    /\ subscribed' = [subscribed EXCEPT ![t] = TRUE] /\ cState' = cState + 1
    /\ Finish(t, ROK)
    /\ UNCHANGED <<val, ver, wakers, woken, rl, wl, ml, cClones, owner, weak, gheld, obsv>>

Step(t) ==
    \/ DropStart(t) \/ DropTryRead(t) \/ DropClose(t) \/ DropRelease(t) \/ UDropStart(t) \/ UDropClose(t)
    \/ SetStart(t) \/ SetStore(t) \/ SetWake(t) \/ SkipCall(t)
    \/ WriteGuard(t) \/ ReadGuard(t) \/ DropGuardC(t) \/ GSetStart(t) \/ GetCall(t)
    \/ PollStart(t) \/ PollDecide(t) \/ PollPark(t)
    \/ UpgradeStart(t) \/ UpgradeFinish(t)
    \/ SubscribeStart(t) \/ SubscribeFinish(t)

Next == \E t \in Threads : Step(t) /\ sched' = Append(sched, t) /\ UNCHANGED prog0
Spec == Init /\ [][Next]_vars

(***************************************************************************)
(* Properties, evaluated when nothing can move any more                    *)
(***************************************************************************)
Quiescent == \A t \in Threads : pc[t] \in {"done", "parked"} /\ (pc[t] = "parked" => t \notin woken)
NoOwnerLeft == \A t \in Threads : ~owner[t]

(* C03: once every owner is gone the observable is closed *)
ClosedWhenNoOwner == (Quiescent /\ NoOwnerLeft) => ver = 0
(* C03: never closed under a live owner *)
NotClosedUnderOwner == (Quiescent /\ ~NoOwnerLeft) => ver # 0
(* C02: nobody stays parked while something is available *)
NoLostWake == Quiescent => \A t \in Threads : pc[t] = "parked" => (ver # 0 /\ obsv[t] >= ver)
(* C03: try_read in drop never finds the lock taken *)
NoPanic == \A t \in Threads : \A j \in 1..Len(res[t]) : res[t][j] # RPANIC
(* the reference counts match the handles *)
CountsMatch == Quiescent => (cClones = Cardinality({t \in Threads : owner[t]}))

View == core
=============================================================================
