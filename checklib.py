"""Orchestration helpers for the eyeball TLA+ verification (python3 stdlib only).

Exit codes used by ./check:  0 property held on everything explored,
1 violation (a line `VIOLATION property=<id> replay=<path>` is printed),
2 tool error / timeout (never a verdict).
"""
import hashlib
import json
import os
import re
import shutil
import subprocess
import sys
import time
from concurrent.futures import ThreadPoolExecutor

ROOT = os.path.dirname(os.path.abspath(__file__))
SPEC = os.path.join(ROOT, "spec")
HARNESS_DIR = os.path.join(ROOT, "harness")
EVIDENCE = os.path.join(ROOT, "evidence")
REPLAYS = os.path.join(ROOT, "replays")
WORKROOT = os.path.join(ROOT, "work")
NCPU = os.cpu_count() or 4


class ToolError(Exception):
    pass


def log(*a):
    print(*a, file=sys.stderr, flush=True)


def die_tool(msg):
    print("TOOL-ERROR: " + msg, flush=True)
    sys.exit(2)


# --------------------------------------------------------------------------- work dirs
def mkwork(tag):
    d = os.path.join(WORKROOT, "%s-%d" % (tag, os.getpid()))
    shutil.rmtree(d, ignore_errors=True)
    os.makedirs(d)
    return d


def rmwork(d):
    if os.environ.get("VERIF_KEEP_WORK"):
        return
    shutil.rmtree(d, ignore_errors=True)


# --------------------------------------------------------------------------- harness
_harness_bin = None


def build_harness():
    """Build the Rust harness against /repo's current working tree (hooks on)."""
    global _harness_bin
    if _harness_bin:
        return _harness_bin
    lock = os.path.join(HARNESS_DIR, "Cargo.lock")
    if not os.path.exists(lock):
        shutil.copy("/repo/Cargo.lock", lock)
    t0 = time.time()
    env = dict(os.environ, CARGO_NET_OFFLINE="true")
    # serialise concurrent builds from parallel checks
    import fcntl
    lk = open(os.path.join(HARNESS_DIR, ".build.lock"), "w")
    fcntl.flock(lk, fcntl.LOCK_EX)
    try:
        p = subprocess.run(["cargo", "build", "--offline", "--release"], cwd=HARNESS_DIR, env=env,
                           stdout=subprocess.PIPE, stderr=subprocess.STDOUT, text=True)
    finally:
        fcntl.flock(lk, fcntl.LOCK_UN)
    if p.returncode != 0:
        log(p.stdout[-6000:])
        raise ToolError("harness build failed")
    log("harness built in %.1fs" % (time.time() - t0))
    _harness_bin = os.path.join(HARNESS_DIR, "target", "release", "eyeball-verif-harness")
    return _harness_bin


def run_harness(args, timeout=900):
    """Run the harness. Exit 3 (watchdog: hang recorded in the trace) is data, not an error."""
    b = build_harness()
    p = subprocess.run([b] + args, stdout=subprocess.PIPE, stderr=subprocess.STDOUT, text=True, timeout=timeout)
    if p.returncode not in (0, 3):
        log(p.stdout[-4000:])
        raise ToolError("harness %s exited %d" % (args[0], p.returncode))
    return p.returncode


# --------------------------------------------------------------------------- TLC
def write_cfg(path, spec=None, init=None, next_=None, constants=None, invariants=(), properties=(),
              constraints=(), action_constraints=(), view=None, postcondition=None, symmetry=None):
    def val(v):
        if isinstance(v, bool):
            return "TRUE" if v else "FALSE"
        if isinstance(v, (set, frozenset, list, tuple)):
            return "{" + ", ".join(val(x) for x in sorted(v, key=str)) + "}"
        if isinstance(v, str):
            return '"%s"' % v
        return str(v)
    with open(path, "w") as f:
        if spec:
            f.write("SPECIFICATION %s\n" % spec)
        if init:
            f.write("INIT %s\nNEXT %s\n" % (init, next_))
        if constants:
            f.write("CONSTANTS\n")
            for k, v in constants.items():
                f.write("  %s = %s\n" % (k, val(v)))
        if view:
            f.write("VIEW %s\n" % view)
        for c in constraints:
            f.write("CONSTRAINT %s\n" % c)
        for c in action_constraints:
            f.write("ACTION_CONSTRAINT %s\n" % c)
        for i in invariants:
            f.write("INVARIANT %s\n" % i)
        for p in properties:
            f.write("PROPERTY %s\n" % p)
        if postcondition:
            f.write("POSTCONDITION %s\n" % postcondition)
        if symmetry:
            f.write("SYMMETRY %s\n" % symmetry)
        f.write("CHECK_DEADLOCK FALSE\n")


_tlc_re = re.compile(r"(\d+) states generated, (\d+) distinct states found, (\d+) states left on queue")


def tlc(module, cfg, work, workers=8, timeout=600, userfile=None, simulate=None, depth=None, seed=None,
        env_extra=None, xmx="4g", coverage=False, dfs=False, tag="tlc"):
    """Run TLC; returns dict(out, generated, distinct, left, rc, wall)."""
    meta = os.path.join(work, "meta-%s" % tag)
    cmd = ["timeout", str(timeout), "java", "-XX:+UseParallelGC", "-Xmx" + xmx, "-Xss1g"]
    if dfs:
        cmd.append("-Dtlc2.tool.queue.IStateQueue=StateDeque")
    cmd += ["-cp", "/opt/veriftools/tla/tla2tools.jar:/opt/veriftools/tla/CommunityModules-deps.jar",
            "tlc2.TLC"]
    cmd = tlc_base(cmd)
    cmd += ["-workers", str(workers), "-metadir", meta, "-cleanup", "-noGenerateSpecTE"]
    if coverage:
        cmd += ["-coverage", "1"]
    if userfile:
        cmd += ["-userFile", userfile]
    if simulate is not None:
        cmd += ["-simulate", "num=%d" % simulate]
        if depth:
            cmd += ["-depth", str(depth)]
    if seed is not None:
        cmd += ["-seed", str(seed)]
    cmd += ["-config", cfg, os.path.join(SPEC, module + ".tla")]
    env = dict(os.environ)
    env.pop("JAVA_TOOL_OPTIONS", None)
    if env_extra:
        env.update(env_extra)
    t0 = time.time()
    p = subprocess.run(cmd, cwd=work, env=env, stdout=subprocess.PIPE, stderr=subprocess.STDOUT, text=True)
    wall = time.time() - t0
    shutil.rmtree(meta, ignore_errors=True)
    out = p.stdout
    m = _tlc_re.findall(out)
    gen, dist, left = (int(x) for x in m[-1]) if m else (0, 0, 0)
    return dict(out=out, generated=gen, distinct=dist, left=left, rc=p.returncode, wall=wall)


_tlc_cmd_cache = None


def tlc_base(cmd_java):
    """Resolve how to launch TLC: reuse the classpath of the `tlc` wrapper on PATH."""
    global _tlc_cmd_cache
    if _tlc_cmd_cache is None:
        cp = None
        w = shutil.which("tlc")
        if w:
            try:
                txt = open(w).read()
                m = re.search(r"-cp\s+\"?([^\s\"]+)\"?", txt)
                if m:
                    cp = m.group(1)
            except Exception:
                pass
        _tlc_cmd_cache = cp
    if _tlc_cmd_cache:
        i = cmd_java.index("-cp")
        cmd_java[i + 1] = _tlc_cmd_cache
    return cmd_java


def tlc_ok(r, what):
    """Model checking finished without error, else ToolError (or returns False for violation)."""
    if r["rc"] == 124:
        raise ToolError("%s: TLC timed out" % what)
    if "Model checking completed. No error has been found." in r["out"] or \
       ("Finished in" in r["out"] and "Error:" not in r["out"]):
        return True
    return False


def parse_user_lines(path, tag):
    """Yield the JSON payload of lines <<"TAG", "json">> printed with PrintT."""
    pre = '<<"%s", ' % tag
    with open(path) as f:
        for line in f:
            if line.startswith(pre):
                s = line.rstrip("\n")[len(pre):-2]
                yield json.loads(s)


def gen_behaviours(module, cfg, work, out_path, mode, workers=8, num=None, depth=None, seed=None, timeout=600,
                   tag="gen", limit=None):
    """Run a Gen* module and collect the printed behaviours into an ndjson file. Returns (count, tlc-result)."""
    uf = os.path.join(work, "user-%s.out" % tag)
    if os.path.exists(uf):
        os.remove(uf)
    if mode == "sim":
        r = tlc(module, cfg, work, workers=1, simulate=num, depth=depth, seed=seed, userfile=uf, timeout=timeout, tag=tag)
    else:
        r = tlc(module, cfg, work, workers=workers, userfile=uf, timeout=timeout, tag=tag)
    if r["rc"] == 124:
        raise ToolError("generation %s/%s timed out" % (module, cfg))
    if "Error:" in r["out"] and mode != "sim":
        log(r["out"][-3000:])
        raise ToolError("generation %s failed" % module)
    n = 0
    mode_f = "a" if os.path.exists(out_path) else "w"
    with open(out_path, mode_f) as o:
        if os.path.exists(uf):
            for js in parse_user_lines(uf, "B"):
                o.write(js + "\n")
                n += 1
                if limit and n >= limit:
                    break
            os.remove(uf)
    if n == 0:
        log(r["out"][-3000:])
        raise ToolError("generation %s/%s produced no behaviours" % (module, os.path.basename(cfg)))
    return n, r


# --------------------------------------------------------------------------- trace validation
def split_trace(trace, work, nchunks, begin_key='"e":"Begin"'):
    """Split an ndjson trace into <= nchunks files at Begin boundaries."""
    size = os.path.getsize(trace)
    if size == 0:
        raise ToolError("empty trace " + trace)
    target = max(size // nchunks + 1, 1 << 16)
    paths = []
    cur = None
    cur_size = 0
    with open(trace) as f:
        for line in f:
            if (cur is None) or (cur_size >= target and begin_key in line):
                if cur:
                    cur.close()
                p = os.path.join(work, "chunk-%03d.ndjson" % len(paths))
                paths.append(p)
                cur = open(p, "w")
                cur_size = 0
            cur.write(line)
            cur_size += len(line)
    if cur:
        cur.close()
    return paths


_v_re = re.compile(r'<<\s*"V",\s*(-?\d+),\s*(-?\d+),\s*"([^"]*)",\s*"([^"]*)",\s*("(?:[^"\\]|\\.)*")\s*>>')
_stats_re = re.compile(r'<<\s*"STATS",\s*"\[([-\d, ]+)\]"\s*>>')


def validate(module, cfg, trace, work, nchunks=None, timeout=2400, dfs=False, xmx="3g"):
    """Validate a recorded trace with a Trace* module, in parallel chunks.

    Returns dict(violations=[{run,event,prop,clause,detail}], stats=[summed counters], events, states)."""
    nchunks = nchunks or NCPU
    chunks = split_trace(trace, work, nchunks)

    def one(i_p):
        i, p = i_p
        r = tlc(module, cfg, work, workers=1, timeout=timeout, env_extra={"TRACE": p}, tag="tv%d" % i, dfs=dfs, xmx=xmx)
        return p, r

    with ThreadPoolExecutor(max_workers=min(len(chunks), NCPU)) as ex:
        results = list(ex.map(one, enumerate(chunks)))
    viol = []
    stats = None
    states = 0
    for p, r in results:
        if r["rc"] == 124:
            raise ToolError("trace validation timed out on " + p)
        got_stats = False
        for m in _v_re.finditer(r["out"]):
            viol.append(dict(run=int(m.group(1)), event=int(m.group(2)), prop=m.group(3), clause=m.group(4),
                             detail=json.loads(json.loads(m.group(5)))))
        for m in _stats_re.finditer(r["out"]):
            got_stats = True
            nums = [int(x) for x in m.group(1).split(",")]
            stats = nums if stats is None else [a + b for a, b in zip(stats, nums)]
        states += r["distinct"]
        if not got_stats:
            log(r["out"][-4000:])
            raise ToolError("trace %s was not consumed by %s (malformed trace or spec cannot follow it)" % (p, module))
    for p in chunks:
        os.remove(p)
    return dict(violations=viol, stats=stats or [], states=states)


# --------------------------------------------------------------------------- findings / evidence / verdict
def tlaps(module, work, timeout=1500, threads=8):
    """Run the TLA+ proof system on spec/<module>.tla; returns dict(ok, proved, total, wall, out).  The fingerprint cache lives
    in the work directory, so every run re-proves everything."""
    t0 = time.time()
    cache = os.path.join(work, "tlacache")
    cmd = ["timeout", str(timeout), "tlapm", "--threads", str(threads), "--cleanfp", "--cache-dir", cache,
           "-I", "/opt/veriftools/tla/CommunityModules", os.path.join(SPEC, module + ".tla")]
    p = subprocess.run(cmd, cwd=SPEC, stdout=subprocess.PIPE, stderr=subprocess.STDOUT, text=True)
    out = p.stdout
    m = re.search(r"All (\d+) obligations? proved", out)
    if m:
        return dict(ok=True, proved=int(m.group(1)), total=int(m.group(1)), wall=time.time() - t0, out=out)
    m = re.search(r"(\d+)/(\d+) obligations failed", out)
    return dict(ok=False, proved=(int(m.group(2)) - int(m.group(1))) if m else 0, total=int(m.group(2)) if m else 0,
                wall=time.time() - t0, out=out)


def load_known():
    p = os.path.join(ROOT, "known_findings.json")
    if not os.path.exists(p):
        return []
    return json.load(open(p)).get("findings", [])


def match_known(prop, sig, known):
    """A violation matches a known finding iff the finding is status=known, same property, and every
    key of its signature equals the violation's signature."""
    for k in known:
        if k.get("status") != "known" or k.get("property") != prop:
            continue
        ks = k.get("signature", {})
        if all(sig.get(a) == b for a, b in ks.items()):
            return k
    return None


def write_replay(prop, payload):
    os.makedirs(REPLAYS, exist_ok=True)
    blob = json.dumps(payload, sort_keys=True)
    hsh = hashlib.sha1(blob.encode()).hexdigest()[:10]
    p = os.path.join(REPLAYS, "%s-%s.json" % (prop, hsh))
    with open(p, "w") as f:
        json.dump(payload, f, indent=1, sort_keys=True)
        f.write("\n")
    return p


def write_evidence(prop, tier, seed, level, coverage, assumptions, wall, violations):
    os.makedirs(EVIDENCE, exist_ok=True)
    ev = dict(property_id=prop, tier=tier, seed=seed, level=level, coverage=coverage,
              assumptions=assumptions, wall_s=round(wall, 2), violations=violations)
    with open(os.path.join(EVIDENCE, prop + ".json"), "w") as f:
        json.dump(ev, f, indent=1, sort_keys=True)
        f.write("\n")


def read_behaviours(path):
    with open(path) as f:
        return [json.loads(l) for l in f if l.strip()]
