//! Conformance harness: drives the real eyeball crates (built from /repo's
//! current working tree) and records what they do.  No oracle lives here;
//! the traces are judged by TLC against the TLA+ specification.

mod adapters;
mod algo;
mod obs;
mod obs_async;
mod threads;
mod util;
mod vec;
mod vecops;

fn arg_after(args: &[String], flag: &str) -> Option<String> {
    args.iter().position(|a| a == flag).and_then(|i| args.get(i + 1)).cloned()
}

fn main() {
    let args: Vec<String> = std::env::args().collect();
    if args.len() < 2 {
        eprintln!("usage: harness <cmd> ...");
        std::process::exit(2);
    }
    util::silence_panics();
    if args.iter().any(|a| a == "--track") {
        util::track(true);
    }
    match args[1].as_str() {
        "obs-replay" => {
            let nv = arg_after(&args, "--nv").map(|s| s.parse().unwrap()).unwrap_or(3);
            obs::replay(&args[2], &args[3], nv);
        }
        "adapters-replay" => adapters::replay(&args[2], &args[3]),
        "obs-async-replay" => {
            let nv = arg_after(&args, "--nv").map(|s| s.parse().unwrap()).unwrap_or(3);
            obs_async::replay(&args[2], &args[3], nv);
        }
        "threads" => {
            let rep = arg_after(&args, "--repeat").map(|s| s.parse().unwrap()).unwrap_or(1);
            threads::set_align(args.iter().any(|a| a == "--align"));
            threads::set_jitter(arg_after(&args, "--jitter").map(|s| s.parse().unwrap()).unwrap_or(0));
            threads::replay(&args[2], &args[3], rep);
        }
        "algo" => algo::run(&args[2], &args[3]),
        "vecops" => vecops::run(&args[2], &args[3]),
        "vec-replay" => vec::replay(&args[2], &args[3]),
        other => {
            eprintln!("harness: unknown command {other}");
            std::process::exit(2);
        }
    }
}
