------------------------------- MODULE GenObs -------------------------------
(* Behaviour generation from Obs.tla (spec -> implementation direction).   *)
(*  - GenObsTree.cfg : every behaviour of exactly Depth operations          *)
(*  - GenObsEdge.cfg : one behaviour per transition of the reachable state  *)
(*                     graph (history hidden by the VIEW, shortest prefix)  *)
(*  - GenObsSim.cfg  : random walks (tlc -simulate), printed at Depth or at *)
(*                     a dead end                                           *)
EXTENDS Obs, Json
CONSTANT Depth
View == core
Bound == Len(hist) <= Depth
PrintAtDepth == Len(hist) = Depth + 1 => PrintT(<<"B", ToJson(hist)>>)
BoundTree == Len(hist) <= Depth + 1
Edge == PrintT(<<"B", ToJson(hist')>>)
=============================================================================
