----------------------------- MODULE AdapterAlgo -----------------------------
(***************************************************************************)
(* Implementation-shaped transcription of the case analysis in             *)
(* eyeball-im-util's head.rs, tail.rs and skip.rs: `handle_diff` (which    *)
(* diffs an adapter emits for one input diff) and `update_limit` /         *)
(* `update_count`.  One operator per function, one CASE arm per match arm. *)
(*                                                                         *)
(* Conventions as in the code: `buf` is the adapter's replica of its input *)
(* AFTER the input diff has been applied, `prev` the length before.        *)
(* Indices inside diffs are 0-based; sequences are 1-based.                *)
(*                                                                         *)
(* Used (MCAlgo) to check, for every small consistent state and input,     *)
(* that the emitted diffs are applicable and rebuild the view demanded by  *)
(* Adapters.tla, and (GenAlgo / TraceAlgo) to drive and compare the real   *)
(* functions arm by arm.  A disagreement between this transcription and    *)
(* the code is DRIFT (the transcription is wrong), never a verdict.        *)
(*                                                                         *)
(* Named deviation: TailLimitDecreaseUsesOldLimit = TRUE transcribes       *)
(* Tail::update_limit as coded (old_limit - new_limit PopFronts, finding   *)
(* D2); FALSE is the repaired rule.                                        *)
(***************************************************************************)
EXTENDS VecOps

CONSTANT TailLimitDecreaseUsesOldLimit

Rep(d, n) == [j \in 1..n |-> d]
Skeep(s, c) == IF c = 0 THEN s ELSE IF c >= Len(s) THEN <<>> ELSE SubSeq(s, c + 1, Len(s))
Get0(s, i) == s[i + 1]                 \* Vector::get(i), caller checks Has0
Has0(s, i) == i >= 0 /\ i < Len(s)

(******************************** Head *************************************)
HeadDiff(d, limit, prev, buf) ==
    IF limit = 0 THEN <<>>
    ELSE LET full == prev >= limit
             refill == IF Has0(buf, limit - 1) THEN <<DPushBack(Get0(buf, limit - 1))>> ELSE <<>>
    IN CASE d.k = "Append"    -> IF full THEN <<>> ELSE <<DAppend(SubSeq(d.vs, 1, Min(limit - prev, Len(d.vs))))>>
         [] d.k = "Clear"     -> <<DClear>>
         [] d.k = "PushFront" -> (IF full THEN <<DPopBack>> ELSE <<>>) \o <<DPushFront(d.v)>>
         [] d.k = "PushBack"  -> IF full THEN <<>> ELSE <<DPushBack(d.v)>>
         [] d.k = "PopFront"  -> <<DPopFront>> \o refill
         [] d.k = "PopBack"   -> IF prev > limit THEN <<>> ELSE <<DPopBack>>
         [] d.k = "Insert"    -> IF d.i >= limit THEN <<>>
                                 ELSE (IF full THEN <<DPopBack>> ELSE <<>>) \o <<DInsert(d.i, d.v)>>
         [] d.k = "Set"       -> IF d.i >= limit THEN <<>> ELSE <<DSet(d.i, d.v)>>
         [] d.k = "Remove"    -> IF d.i >= limit THEN <<>> ELSE <<DRemove(d.i)>> \o refill
         [] d.k = "Truncate"  -> IF d.i >= limit THEN <<>> ELSE <<DTruncate(d.i)>>
         [] d.k = "Reset"     -> <<DReset(HeadView(d.vs, limit))>>

HeadLimit(old, new, buf) ==
    IF buf = <<>> THEN <<>>
    ELSE IF old < new
         THEN LET missing == SubSeq(buf, old + 1, Min(new, Len(buf))) IN
              IF missing = <<>> THEN <<>> ELSE <<DAppend(missing)>>
    ELSE IF old > new
         THEN IF Len(buf) <= new THEN <<>> ELSE <<DTruncate(new)>>
    ELSE <<>>

(******************************** Tail *************************************)
TailDiff(d, limit, prev, buf) ==
    IF limit = 0 THEN <<>>
    ELSE LET iol  == Max(prev - limit, 0)
             full == prev >= limit
             (* the item just before the view, re-entering at the front *)
             enter == IF Has0(buf, Max(iol - 1, 0)) THEN <<DPushFront(Get0(buf, Max(iol - 1, 0)))>> ELSE <<>>
    IN CASE d.k = "Append"    -> LET vs == TailView(d.vs, limit)
                                     np == Min(Len(vs), Max(prev + Len(vs) - limit, 0))
                                 IN Rep(DPopFront, np) \o <<DAppend(vs)>>
         [] d.k = "Clear"     -> <<DClear>>
         [] d.k = "PushFront" -> IF full THEN <<>> ELSE <<DPushFront(d.v)>>
         [] d.k = "PushBack"  -> (IF full THEN <<DPopFront>> ELSE <<>>) \o <<DPushBack(d.v)>>
         [] d.k = "PopFront"  -> IF prev > limit THEN <<>> ELSE <<DPopFront>>
         [] d.k = "PopBack"   -> <<DPopBack>> \o (IF prev > limit THEN enter ELSE <<>>)
         [] d.k = "Insert"    -> IF limit > prev \/ d.i > iol
                                 THEN (IF full THEN <<DPopFront>> ELSE <<>>)
                                      \o <<DInsert(IF full THEN d.i - iol - 1 ELSE d.i, d.v)>>
                                 ELSE <<>>
         [] d.k = "Set"       -> IF d.i >= iol THEN <<DSet(d.i - iol, d.v)>> ELSE <<>>
         [] d.k = "Remove"    -> IF d.i >= iol
                                 THEN <<DRemove(d.i - iol)>> \o (IF iol # 0 THEN enter ELSE <<>>)
                                 ELSE <<>>
         [] d.k = "Truncate"  -> LET nr == Min(limit, prev - d.i)
                                     (* buf.iter().rev().skip(limit - nr).take(nr) *)
                                     js == {j \in (limit - nr)..(limit - 1) : Len(buf) - j >= 1}
                                     pushes == [x \in 1..Cardinality(js) |-> DPushFront(buf[Len(buf) - (limit - nr + x - 1)])]
                                 IN Rep(DPopBack, nr) \o pushes
         [] d.k = "Reset"     -> <<DReset(TailView(d.vs, limit))>>

TailLimit(old, new, buf) ==
    IF buf = <<>> THEN <<>>
    ELSE IF old < new
         THEN LET js == {j \in old..(new - 1) : Len(buf) - j >= 1} IN
              IF js = {} THEN <<>>
              ELSE IF old = 0 THEN <<DAppend(SubSeq(buf, Len(buf) - Cardinality(js) + 1, Len(buf)))>>
              ELSE [x \in 1..Cardinality(js) |-> DPushFront(buf[Len(buf) - (old + x - 1)])]
    ELSE IF old > new
         THEN IF Len(buf) <= new THEN <<>>
              ELSE IF new = 0 THEN <<DClear>>
              ELSE Rep(DPopFront, IF TailLimitDecreaseUsesOldLimit THEN old - new ELSE Min(old, Len(buf)) - new)
    ELSE <<>>

(******************************** Skip *************************************)
(* count = -1 stands for None (nothing announced yet): every diff is swallowed *)
SkipDiff(d, count, prev, buf) ==
    IF count < 0 THEN <<>>
    ELSE CASE d.k = "Append"    -> IF Len(buf) > count
                                   THEN <<DAppend(IF prev < count THEN Skeep(d.vs, count - prev) ELSE d.vs)>>
                                   ELSE <<>>
           [] d.k = "Clear"     -> <<DClear>>
           [] d.k = "PushFront" -> IF prev >= count
                                   THEN IF count = 0 THEN <<DPushFront(d.v)>>
                                        ELSE IF Has0(buf, count) THEN <<DPushFront(Get0(buf, count))>> ELSE <<>>
                                   ELSE <<>>
           [] d.k = "PushBack"  -> IF prev >= count THEN <<DPushBack(d.v)>> ELSE <<>>
           [] d.k = "PopFront"  -> IF prev > count THEN <<DPopFront>> ELSE <<>>
           [] d.k = "PopBack"   -> IF prev > count THEN <<DPopBack>> ELSE <<>>
           [] d.k = "Insert"    -> IF prev >= count
                                   THEN IF count > 0 /\ d.i < count
                                        THEN IF Has0(buf, count) THEN <<DPushFront(Get0(buf, count))>> ELSE <<>>
                                        ELSE <<DInsert(d.i - count, d.v)>>
                                   ELSE <<>>
           [] d.k = "Set"       -> IF d.i >= count THEN <<DSet(d.i - count, d.v)>> ELSE <<>>
           [] d.k = "Remove"    -> IF prev > count
                                   THEN IF d.i < count THEN <<DPopFront>> ELSE <<DRemove(d.i - count)>>
                                   ELSE <<>>
           [] d.k = "Truncate"  -> IF prev > count
                                   THEN IF d.i > count THEN <<DTruncate(d.i - count)>> ELSE <<DClear>>
                                   ELSE <<>>
           [] d.k = "Reset"     -> <<DReset(Skeep(d.vs, count))>>

SkipCount(oldOpt, new0, buf) ==
    IF buf = <<>> THEN <<>>
    ELSE IF oldOpt < 0 THEN <<DAppend(Skeep(buf, new0))>>
    ELSE LET n == Len(buf)  old == Min(oldOpt, n)  new == Min(new0, n) IN
         IF old < new
         THEN IF n <= new THEN <<DClear>> ELSE Rep(DPopFront, new - old)
         ELSE IF old > new
         THEN IF old = n /\ new = 0 THEN <<DAppend(buf)>>
              ELSE [x \in 1..(old - new) |-> DPushFront(buf[old - x + 1])]
         ELSE <<>>

(************************** Filter / FilterMap *****************************)
(* filter.rs keeps, besides the inner stream, the ascending list of the     *)
(* ORIGINAL indices of the items that passed (`filtered_indices`) and the   *)
(* original length.  st = [fi |-> sequence of original indices, olen |-> n] *)
(* P(v): the item passes; F(v): what it is mapped to (identity for Filter). *)
PartitionPoint(fi, x) == Cardinality({j \in 1..Len(fi) : fi[j] < x})
ShiftFrom(fi, k, by) == [j \in 1..Len(fi) |-> IF j > k THEN fi[j] + by ELSE fi[j]]
InsertAt1(sq, pos, x) == SubSeq(sq, 1, pos - 1) \o <<x>> \o SubSeq(sq, pos, Len(sq))
RemoveAt1(sq, pos) == SubSeq(sq, 1, pos - 1) \o SubSeq(sq, pos + 1, Len(sq))
FSt(fi, olen) == [fi |-> fi, olen |-> olen]
FRes(st, out) == [st |-> st, out |-> out]

(* indices (relative to base) and mapped values of the items of vs that pass *)
NthOf(J, x) == CHOOSE j \in J : Cardinality({i \in J : i < j}) = x - 1
KeptOf(vs, base, P(_), F(_)) ==
    LET J == {j \in 1..Len(vs) : P(vs[j])} IN
    [idx  |-> [x \in 1..Cardinality(J) |-> base + NthOf(J, x) - 1],
     vals |-> [x \in 1..Cardinality(J) |-> F(vs[NthOf(J, x)])]]

FilterStep(st, d, P(_), F(_)) ==
    LET fi == st.fi  olen == st.olen IN
    CASE d.k = "Append" ->
            LET k == KeptOf(d.vs, olen, P, F) IN
            FRes(FSt(fi \o k.idx, olen + Len(d.vs)), IF k.vals = <<>> THEN <<>> ELSE <<DAppend(k.vals)>>)
      [] d.k = "Clear" -> FRes(FSt(<<>>, 0), <<DClear>>)
      [] d.k = "PushFront" ->
            LET sh == ShiftFrom(fi, 0, 1) IN
            IF P(d.v) THEN FRes(FSt(<<0>> \o sh, olen + 1), <<DPushFront(F(d.v))>>) ELSE FRes(FSt(sh, olen + 1), <<>>)
      [] d.k = "PushBack" ->
            IF P(d.v) THEN FRes(FSt(Append(fi, olen), olen + 1), <<DPushBack(F(d.v))>>) ELSE FRes(FSt(fi, olen + 1), <<>>)
      [] d.k = "PopFront" ->
            IF fi # <<>> /\ fi[1] = 0 THEN FRes(FSt(ShiftFrom(Tail(fi), 0, -1), olen - 1), <<DPopFront>>)
            ELSE FRes(FSt(ShiftFrom(fi, 0, -1), olen - 1), <<>>)
      [] d.k = "PopBack" ->
            IF fi # <<>> /\ fi[Len(fi)] = olen - 1 THEN FRes(FSt(SubSeq(fi, 1, Len(fi) - 1), olen - 1), <<DPopBack>>)
            ELSE FRes(FSt(fi, olen - 1), <<>>)
      [] d.k = "Insert" ->
            LET k == PartitionPoint(fi, d.i)  sh == ShiftFrom(fi, k, 1) IN
            IF P(d.v) THEN FRes(FSt(InsertAt1(sh, k + 1, d.i), olen + 1), <<DInsert(k, F(d.v))>>) ELSE FRes(FSt(sh, olen + 1), <<>>)
      [] d.k = "Set" ->
            LET k == PartitionPoint(fi, d.i)
                was == k < Len(fi) /\ fi[k + 1] = d.i
            IN IF was
               THEN IF P(d.v) THEN FRes(st, <<DSet(k, F(d.v))>>) ELSE FRes(FSt(RemoveAt1(fi, k + 1), olen), <<DRemove(k)>>)
               ELSE IF P(d.v) THEN FRes(FSt(InsertAt1(fi, k + 1, d.i), olen), <<DInsert(k, F(d.v))>>) ELSE FRes(st, <<>>)
      [] d.k = "Remove" ->
            LET k == PartitionPoint(fi, d.i)
                was == k < Len(fi) /\ fi[k + 1] = d.i
                fi2 == IF was THEN RemoveAt1(fi, k + 1) ELSE fi
            IN FRes(FSt(ShiftFrom(fi2, k, -1), olen - 1), IF was THEN <<DRemove(k)>> ELSE <<>>)
      [] d.k = "Truncate" ->
            LET nf == Cardinality({j \in 1..Len(fi) : fi[j] < d.i}) IN
            IF nf < Len(fi) THEN FRes(FSt(SubSeq(fi, 1, nf), d.i), <<DTruncate(nf)>>) ELSE FRes(FSt(fi, d.i), <<>>)
      [] d.k = "Reset" ->
            LET k == KeptOf(d.vs, 0, P, F) IN FRes(FSt(k.idx, Len(d.vs)), <<DReset(k.vals)>>)

(* the bookkeeping that corresponds to a source s *)
FilterStateOf(s, P(_)) ==
    LET J == {j \in 1..Len(s) : P(s[j])} IN
    FSt([x \in 1..Cardinality(J) |-> NthOf(J, x) - 1], Len(s))
FilterViewOf(s, P(_), F(_)) == MapSeq(SelectSeq(s, P), F)

(* one input diff on source s: bookkeeping stays exact, emitted diffs applicable and rebuilding the view *)
FilterStepOK(s, d, P(_), F(_)) ==
    LET r  == FilterStep(FilterStateOf(s, P), d, P, F)
        s2 == Apply(d, s)
        v  == FilterViewOf(s, P, F)
    IN /\ r.st = FilterStateOf(s2, P)
       /\ AllApplicable(r.out, v) /\ ApplyAll(r.out, v) = FilterViewOf(s2, P, F)

(***************************************************************************)
(* What the transcription is checked against (Adapters.tla's view rule)    *)
(***************************************************************************)
(* the concrete predicate / mapping the one-step conformance run instantiates Filter / FilterMap with *)
AlgoKeep(v) == v % 2 = 1
AlgoId(v) == v
AlgoMap(v) == v + 100

ViewOf(kind, p, s) ==
    CASE kind = "head" -> IF p < 0 THEN <<>> ELSE HeadView(s, p)
      [] kind = "tail" -> IF p < 0 THEN <<>> ELSE TailView(s, p)
      [] kind = "filter" -> FilterViewOf(s, AlgoKeep, AlgoId)
      [] kind = "filter_map" -> FilterViewOf(s, AlgoKeep, AlgoMap)
      [] OTHER         -> IF p < 0 THEN <<>> ELSE SkipView(s, p)

AlgoDiff(kind, d, p, prev, buf) ==
    CASE kind = "head" -> HeadDiff(d, p, prev, buf)
      [] kind = "tail" -> TailDiff(d, p, prev, buf)
      [] OTHER         -> SkipDiff(d, p, prev, buf)

AlgoLimit(kind, old, new, buf) ==
    CASE kind = "head" -> HeadLimit(old, new, buf)
      [] kind = "tail" -> TailLimit(old, new, buf)
      [] OTHER         -> SkipCount(old, new, buf)

(* one input diff d on source s with parameter p: emitted diffs are applicable and rebuild the view *)
DiffStepOK(kind, s, p, d) ==
    LET s2  == Apply(d, s)
        out == AlgoDiff(kind, d, p, Len(s), s2)
        v   == ViewOf(kind, p, s)
    IN AllApplicable(out, v) /\ ApplyAll(out, v) = ViewOf(kind, p, s2)

(* C15: with a fixed limit the view never exceeds it, after every single emitted diff *)
DiffStepBounded(kind, s, p, d) ==
    LET s2 == Apply(d, s)
        out == AlgoDiff(kind, d, p, Len(s), s2)
        sts == States(out, ViewOf(kind, p, s))
    IN \A j \in 1..Len(sts) : Len(sts[j]) <= p

LimitStepOK(kind, s, old, new) ==
    LET out == AlgoLimit(kind, old, new, s)
        v   == ViewOf(kind, old, s)
    IN AllApplicable(out, v) /\ ApplyAll(out, v) = ViewOf(kind, new, s)

(* the exact condition under which Tail::update_limit, as coded, is wrong (finding D2) *)
D2Cond(s, old, new) == old > Len(s) /\ Len(s) > new /\ new >= 1
=============================================================================
