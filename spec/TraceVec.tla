------------------------------ MODULE TraceVec ------------------------------
(***************************************************************************)
(* Trace validation for the `vec` layer (eyeball-im).                      *)
(*                                                                         *)
(* Vector-side calls are replayed through the actions of Vec.tla: their    *)
(* results and the vector's contents must be what a plain vector gives     *)
(* (C17, C07).  What a subscriber stream delivered is NOT compared with    *)
(* the model's own prediction (that comparison only feeds the DRIFT        *)
(* counter); it is judged by the property-level acceptance operators of    *)
(* Vec.tla: applicability, one diff per direct call, one unit per commit,  *)
(* Reset only when lagging and always current, up to date at Pending, end  *)
(* only after the drop and on the final state, no lost wake-up.            *)
(***************************************************************************)
EXTENDS Vec, Json, IOUtils, TLCExt

Rec == ndJsonDeserialize(IOEnv.TRACE)

VARIABLES l, poisoned, seen
tvars == <<vars, l, poisoned, seen>>

NCounters == 9
Bump(i) == TLCSet(i, TLCGet(i) + 1)

FreshState(c) ==
    /\ alive' = TRUE /\ vals' = <<>> /\ cap' = c /\ fresh' = 1
    /\ txn' = NoTxn /\ chan' = <<>>
    /\ subs' = {} /\ sflav' = [s \in SubIds |-> "plain"] /\ snext' = [s \in SubIds |-> 0]
    /\ srest' = [s \in SubIds |-> <<>>]
    /\ replica' = [s \in SubIds |-> <<>>] /\ gmsgs' = [s \in SubIds |-> <<>>]
    /\ cands' = [s \in SubIds |-> {<<0, FALSE>>}]
    /\ armed' = [s \in SubIds |-> FALSE] /\ owed' = {}
    /\ ret' = RNil /\ out' = <<>> /\ hist' = <<>>

TraceInit ==
    /\ l = 1 /\ poisoned = TRUE /\ seen = {}
    /\ alive = TRUE /\ vals = <<>> /\ cap = 1 /\ fresh = 1
    /\ txn = NoTxn /\ chan = <<>>
    /\ subs = {} /\ sflav = [s \in SubIds |-> "plain"] /\ snext = [s \in SubIds |-> 0]
    /\ srest = [s \in SubIds |-> <<>>]
    /\ replica = [s \in SubIds |-> <<>>] /\ gmsgs = [s \in SubIds |-> <<>>]
    /\ cands = [s \in SubIds |-> {<<0, FALSE>>}]
    /\ armed = [s \in SubIds |-> FALSE] /\ owed = {}
    /\ ret = RNil /\ out = <<>> /\ hist = <<>>
    /\ \A i \in 1..NCounters : TLCSet(i, 0)

(* Begin: capacity, initial contents (appended before anybody subscribed) and the subscribers that exist from the start *)
DoBegin(e) ==
    /\ alive' = TRUE /\ vals' = e.init /\ cap' = e.cap /\ fresh' = Len(e.init) + 1
    /\ txn' = NoTxn /\ chan' = <<>>
    /\ subs' = 1..e.presubs
    /\ sflav' = [s \in SubIds |-> IF s = 2 THEN "batched" ELSE "plain"]
    /\ snext' = [s \in SubIds |-> 0] /\ srest' = [s \in SubIds |-> <<>>]
    /\ replica' = [s \in SubIds |-> e.init] /\ gmsgs' = [s \in SubIds |-> <<>>]
    /\ cands' = [s \in SubIds |-> {<<0, FALSE>>}]
    /\ armed' = [s \in SubIds |-> FALSE] /\ owed' = {}
    /\ ret' = RNil /\ out' = <<>> /\ hist' = <<>>
    /\ poisoned' = FALSE /\ seen' = {} /\ Bump(1)

(* vector-side call named by the event *)
VecAction(e) ==
    \/ e.op = "PushBack" /\ PushBack(e.t, e.v)
    \/ e.op = "PushFront" /\ PushFront(e.t, e.v)
    \/ e.op = "PopBack" /\ PopBack(e.t)
    \/ e.op = "PopFront" /\ PopFront(e.t)
    \/ e.op = "Insert" /\ Insert(e.t, e.i, e.v)
    \/ e.op = "Set" /\ SetAt(e.t, e.i, e.v, "Set")
    \/ e.op = "EntrySet" /\ SetAt(e.t, e.i, e.v, "EntrySet")
    \/ e.op = "Remove" /\ RemoveIdx(e.t, e.i, "Remove")
    \/ e.op = "EntryRemove" /\ RemoveIdx(e.t, e.i, "EntryRemove")
    \/ e.op = "Truncate" /\ Truncate(e.t, e.i)
    \/ e.op = "Clear" /\ Clear(e.t)
    \/ e.op = "Append" /\ AppendK(e.t, Len(e.vs))
    \/ e.op = "Entries" /\ Entries(e.t, e.i, e.vs)
    \/ e.op = "TxnBegin" /\ TxnBegin
    \/ e.op = "TxnCommit" /\ TxnCommit
    \/ e.op = "TxnRollback" /\ TxnRollback
    \/ e.op = "TxnDrop" /\ TxnDrop
    \/ e.op = "Subscribe" /\ Subscribe(e.s, e.k)
    \/ e.op = "DropSub" /\ DropSub(e.s)
    \/ e.op = "DropVector" /\ DropVector

TxnOps == {"TxnBegin", "TxnCommit", "TxnRollback", "TxnDrop"}

RetOk(e) == e.ret.t = ret'.t /\ e.ret.v = ret'.v /\ e.ret.vs = ret'.vs
ContentsOk(e) == ~alive' \/ e.contents = vals'
WorkOk(e) == ~txn'.open \/ e.work = txn'.work

OpFailures(e) ==
    (IF RetOk(e) THEN {} ELSE {<<IF e.op = "Subscribe" THEN "C05" ELSE "C17", "ret">>})
    \cup (IF ContentsOk(e) THEN {} ELSE {<<IF e.t = "t" \/ e.op \in TxnOps THEN "C07" ELSE "C17", "contents">>})
    \cup (IF WorkOk(e) THEN {} ELSE {<<"C07", "work">>})

Detail(e) ==
    ToJson([op |-> e.op, t |-> e.t, s |-> e.s, i |-> e.i, v |-> e.v, k |-> e.k, got |-> e.ret,
            expected |-> [t |-> ret'.t, v |-> ret'.v, vs |-> ret'.vs],
            contents |-> e.contents, vals |-> vals', cap |-> cap])

ReportSet(e, fails, detail) ==
    /\ \A f \in fails : (f[1] \notin seen) => PrintT(<<"V", e.run, l, f[1], f[2], detail>>)
    /\ seen' = seen \cup {f[1] : f \in fails}

DoOp(e) ==
    /\ VecAction(e)
    /\ LET fails == OpFailures(e) IN
         /\ ReportSet(e, fails, Detail(e))
         /\ poisoned' = (fails # {})
    /\ Bump(2)
    /\ (ret'.t = "Panic" => Bump(9))
    /\ (e.op = "TxnCommit" /\ txn.rec # "none" => Bump(5))

(***************************************************************************)
(* Poll events                                                             *)
(***************************************************************************)
LagPossible(s) == Len(gmsgs[s]) > cap
HasMany(s) == \E j \in 1..Len(gmsgs[s]) : gmsgs[s][j].n # "one"

BadProp(bad, s, endT) ==
    CASE bad \in {"reset-without-lag", "reset-not-current"} -> "C06"
      [] bad = "empty-batch" -> "C07"
      [] bad = "inapplicable" -> IF LagPossible(s) THEN "C06" ELSE "C05"
      [] bad = "unexplained-diff" -> IF HasMany(s) THEN "C07" ELSE IF LagPossible(s) THEN "C06" ELSE "C05"
      [] bad = "batch-not-up-to-date" -> IF HasMany(s) THEN "C07" ELSE IF LagPossible(s) THEN "C06" ELSE "C05"
      [] bad = "not-up-to-date-at-pending" ->
            IF endT = "End" THEN "C08" ELSE IF LagPossible(s) THEN "C06" ELSE "C05"
      [] bad = "diffs-missing" -> IF HasMany(s) THEN "C07" ELSE "C05"
      [] OTHER -> "C05"

DoPoll(e) ==
    LET s  == e.s
        g1 == AcceptItems(GOf(s), e.items, sflav[s], vals, cap)
        g2 == IF e.ret.t = "More" THEN g1 ELSE AcceptSync(g1, vals, cap)
        pg == PollGroup(sflav[s], snext[s], srest[s], e.k, <<>>)
        endBad == IF e.ret.t = "End" /\ alive THEN {<<"C08", "end-while-alive">>}
                  ELSE IF e.ret.t = "Pending" /\ ~alive THEN {<<"C08", "pending-after-drop">>}
                  ELSE IF e.ret.t \notin {"End", "Pending", "More"} THEN {<<"C05", "runaway">>}
                  ELSE {}
        accBad == IF g2.bad = "" THEN {} ELSE {<<BadProp(g2.bad, s, e.ret.t), g2.bad>>}
        wakeBad == IF armed[s] /\ s \in owed /\ e.wk # 1
                   THEN {<<IF ~alive THEN "C08" ELSE "C14", "lost-wake">>} ELSE {}
        fails == endBad \cup accBad \cup wakeBad
    IN /\ s \in subs
       /\ ReportSet(e, fails,
             ToJson([op |-> "Poll", s |-> s, k |-> e.k, flav |-> sflav[s], items |-> e.items, end |-> e.ret.t,
                     wk |-> e.wk, bad |-> g2.bad, replica |-> replica[s], msgs |-> gmsgs[s], vals |-> vals,
                     cap |-> cap, alive |-> alive, armed |-> armed[s], owed |-> (s \in owed),
                     model_items |-> pg.items, model_end |-> pg.end]))
       /\ poisoned' = (endBad \cup accBad # {})
       /\ replica' = [replica EXCEPT ![s] = g2.rep]
       /\ gmsgs' = [gmsgs EXCEPT ![s] = g2.msgs]
       /\ cands' = [cands EXCEPT ![s] = g2.cands]
       /\ armed' = [armed EXCEPT ![s] = (e.ret.t = "Pending")]
       /\ owed' = owed \ {s}
       /\ snext' = [snext EXCEPT ![s] = pg.next]
       /\ srest' = [srest EXCEPT ![s] = pg.rest]
       /\ UNCHANGED <<alive, vals, cap, fresh, txn, chan, subs, sflav, ret, out, hist>>
       /\ Bump(2)
       /\ (e.items # <<>> => Bump(3))
       /\ ((\E b \in 1..Len(e.items) : \E j \in 1..Len(e.items[b]) : e.items[b][j].k = "Reset") => Bump(4))
       /\ (e.ret.t = "End" => Bump(6))
       /\ (armed[s] /\ s \in owed => Bump(7))
       /\ ((pg.items # e.items \/ pg.end # e.ret.t) => Bump(8))

Skip == UNCHANGED <<vars, poisoned, seen>>

TraceNext ==
    /\ l <= Len(Rec)
    /\ l' = l + 1
    /\ LET e == Rec[l] IN
         IF e.e = "Begin" THEN DoBegin(e)
         ELSE IF poisoned \/ e.e # "Op" THEN Skip
         ELSE IF e.op = "Poll" THEN DoPoll(e)
         ELSE DoOp(e)

TraceSpec == TraceInit /\ [][TraceNext]_tvars

TraceAccepted ==
    LET d == TLCGet("stats").diameter IN
    IF d - 1 = Len(Rec)
    THEN PrintT(<<"STATS", ToJson(<<Len(Rec), TLCGet(1), TLCGet(2), TLCGet(3), TLCGet(4), TLCGet(5), TLCGet(6), TLCGet(7), TLCGet(8), TLCGet(9)>>)>>)
    ELSE /\ PrintT(<<"STUCK", d, IF d <= Len(Rec) THEN ToJson(Rec[d]) ELSE "eof">>)
         /\ FALSE
=============================================================================
