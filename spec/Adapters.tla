------------------------------- MODULE Adapters -------------------------------
(***************************************************************************)
(* View adapters of crate eyeball-im-util, property level.                 *)
(*                                                                         *)
(* A pipe is a subscriber of the ObservableVector (Vec.tla, subscriber id  *)
(* = pipe id) followed by a chain of stages.  A stage is a record          *)
(*   [kind |-> "head" | "tail" | "skip" | "filter" | "filter_map" |        *)
(*             "sort" | "sort_by" | "sort_by_key",                         *)
(*    mode |-> "static" | "dyn" | "dyninit"   (head/tail/skip only),       *)
(*    p    |-> initial limit / count,                                      *)
(*    self |-> 1 when the NEXT stage is built from this adapter itself]    *)
(* This module says what each stage must PRESENT (its view as a function   *)
(* of the view below it and of the latest announced limit); it does not    *)
(* say which diffs a stage emits.                                          *)
(***************************************************************************)
EXTENDS Vec

(* the concrete functions the harness instantiates the adapters with *)
Keep(v)   == v % 2 = 1                 \* filter predicate
FmKeep(v) == v % 3 # 0                 \* filter_map: Some(v + 100) when v % 3 # 0
FmMap(v)  == v + 100
LeSort(a, b)      == a <= b            \* sort: Ord
LeSortBy(a, b)    == (a % 4) >= (b % 4)   \* sort_by: descending on v mod 4
LeSortByKey(a, b) == (a % 3) <= (b % 3)   \* sort_by_key: v mod 3

LimitKinds == {"head", "tail", "skip"}
SortKinds  == {"sort", "sort_by", "sort_by_key"}
FixedParam(st) == st.kind \notin LimitKinds \/ st.mode = "static"

NoParam == -1      \* purely dynamic, nothing announced yet: the view is empty
ParamInit(st) == IF st.kind \in LimitKinds /\ st.mode # "dyn" THEN st.p ELSE NoParam

(* the view a functional stage must present over input `in` with parameter p *)
ExpView(st, p, in) ==
    CASE st.kind = "head" -> IF p = NoParam THEN <<>> ELSE HeadView(in, p)
      [] st.kind = "tail" -> IF p = NoParam THEN <<>> ELSE TailView(in, p)
      [] st.kind = "skip" -> IF p = NoParam THEN <<>> ELSE SkipView(in, p)
      [] st.kind = "filter" -> SelectSeq(in, Keep)
      [] st.kind = "filter_map" -> MapSeq(SelectSeq(in, FmKeep), FmMap)
      [] OTHER -> in

ViewOk(st, p, in, v) ==
    CASE st.kind = "sort"        -> IsSortedBy(v, LeSort) /\ SamePerm(v, in)
      [] st.kind = "sort_by"     -> IsSortedBy(v, LeSortBy) /\ SamePerm(v, in)
      [] st.kind = "sort_by_key" -> IsSortedBy(v, LeSortByKey) /\ SamePerm(v, in)
      [] OTHER -> v = ExpView(st, p, in)

(* a deterministic representative of a correct view (used for untapped stages) *)
IdealView(st, p, in) ==
    IF st.kind \in SortKinds
    THEN LET le(a, b) == CASE st.kind = "sort" -> LeSort(a, b) [] st.kind = "sort_by" -> LeSortBy(a, b) [] OTHER -> LeSortByKey(a, b)
         IN in   \* never needed: sort stages are always tapped
    ELSE ExpView(st, p, in)
=============================================================================
