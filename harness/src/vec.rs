//! Replayer for the `vec` layer (crate `eyeball-im`): ObservableVector, its
//! transactions, entry traversal and subscriber streams.
//!
//! Behaviour records: `{op,t,s,i,v,vs,k}` as produced by Vec.tla (`hist`).

use std::{
    collections::BTreeMap,
    mem,
    pin::Pin,
    sync::Arc,
    task::{Context, Poll},
};

use eyeball_im::{
    ObservableVector, ObservableVectorEntry, ObservableVectorTransaction,
    ObservableVectorTransactionEntry, VectorDiff, VectorSubscriber, VectorSubscriberBatchedStream,
    VectorSubscriberStream,
};
use futures_core::Stream;
use imbl::Vector;
use serde_json::{json, Value};

use crate::util::*;

pub fn diff_json(d: &VectorDiff<Elem>) -> Value {
    let (k, i, v, vs): (&str, i64, i64, Value) = match d {
        VectorDiff::Append { values } => ("Append", 0, 0, seq_json(values.iter())),
        VectorDiff::Clear => ("Clear", 0, 0, json!([])),
        VectorDiff::PushFront { value } => ("PushFront", 0, value.v, json!([])),
        VectorDiff::PushBack { value } => ("PushBack", 0, value.v, json!([])),
        VectorDiff::PopFront => ("PopFront", 0, 0, json!([])),
        VectorDiff::PopBack => ("PopBack", 0, 0, json!([])),
        VectorDiff::Insert { index, value } => ("Insert", *index as i64, value.v, json!([])),
        VectorDiff::Set { index, value } => ("Set", *index as i64, value.v, json!([])),
        VectorDiff::Remove { index } => ("Remove", *index as i64, 0, json!([])),
        VectorDiff::Truncate { length } => ("Truncate", *length as i64, 0, json!([])),
        VectorDiff::Reset { values } => ("Reset", 0, 0, seq_json(values.iter())),
    };
    json!({"k": k, "i": i, "v": v, "vs": vs})
}

pub fn rv(t: &str, v: i64, vs: Value) -> Value {
    json!({"t": t, "v": v, "vs": vs})
}

/// The observable vector plus an optionally open transaction.
#[derive(Default)]
pub struct Source {
    // field order = drop order: the transaction borrows the vector
    pub txn: Option<ObservableVectorTransaction<'static, Elem>>,
    pub vec: Option<Box<ObservableVector<Elem>>>,
}

fn opt_ret(o: Option<Elem>) -> Value {
    match o {
        Some(e) => rv("Val", e.val(), json!([])),
        None => rv("Nil", 0, json!([])),
    }
}

/// One step of an entry traversal; `E` abstracts over the two entry types.
macro_rules! walk_entry {
    ($entry:ident, $ty:ident, $decs:ident, $pos:ident, $vis:ident, $stop:ident) => {{
        let d = if $pos < $decs.len() { $decs[$pos] } else { 0 };
        $pos += 1;
        let idx = $ty::index(&$entry) as i64;
        let x = (*$entry).v;
        match d {
            1 => {
                let mut e = $entry;
                let old = $ty::set(&mut e, Elem::new(next_fresh())).v;
                $vis.extend_from_slice(&[idx, x, old, -1]);
            }
            2 => {
                let r = $ty::remove($entry).v;
                $vis.extend_from_slice(&[idx, x, -1, r]);
            }
            3 => {
                let mut e = $entry;
                let old = $ty::set(&mut e, Elem::new(next_fresh())).v;
                let r = $ty::remove(e).v;
                $vis.extend_from_slice(&[idx, x, old, r]);
            }
            _ => {
                $vis.extend_from_slice(&[idx, x, -1, -1]);
                drop($entry);
            }
        }
        let _ = &$stop;
    }};
}

thread_local! {
    static FRESH: std::cell::Cell<i64> = const { std::cell::Cell::new(1) };
}
fn next_fresh() -> i64 {
    FRESH.with(|f| {
        let v = f.get();
        f.set(v + 1);
        v
    })
}
pub fn set_fresh(v: i64) {
    FRESH.with(|f| f.set(v));
}

impl Source {
    pub fn new(cap: i64, via_default: bool) -> Source {
        let v = if via_default && cap == 16 {
            ObservableVector::new()
        } else {
            ObservableVector::with_capacity(cap as usize)
        };
        Source { txn: None, vec: Some(Box::new(v)) }
    }

    pub fn contents(&self) -> Value {
        match &self.vec {
            // while a transaction is open the vector is mutably borrowed; reading its
            // values through the raw pointer is what `Deref` would give before the borrow
            Some(v) => seq_json(v.iter()),
            None => json!([]),
        }
    }
    pub fn work(&self) -> Value {
        match &self.txn {
            Some(t) => seq_json(t.iter()),
            None => json!([]),
        }
    }

    /// Execute a vector-side operation. Returns None if `op` is not one.
    pub fn exec(&mut self, o: &Value) -> Option<Value> {
        let op = gets(o, "op");
        let in_txn = gets(o, "t") == "t";
        let i = geti(o, "i") as usize;
        let v = geti(o, "v");
        let nil = || rv("Nil", 0, json!([]));
        macro_rules! both {
            (|$x:ident| $body:expr) => {
                if in_txn {
                    let $x = self.txn.as_mut().expect("txn");
                    $body
                } else {
                    let $x = self.vec.as_mut().expect("vec");
                    $body
                }
            };
        }
        // values created by the call are numbered like the spec's `fresh`
        if v > 0 {
            set_fresh(v);
        }
        let r = match op {
            "PushBack" => {
                both!(|x| x.push_back(Elem::new(v)));
                nil()
            }
            "PushFront" => {
                both!(|x| x.push_front(Elem::new(v)));
                nil()
            }
            "PopBack" => opt_ret(both!(|x| x.pop_back())),
            "PopFront" => opt_ret(both!(|x| x.pop_front())),
            "Insert" => {
                both!(|x| x.insert(i, Elem::new(v)));
                nil()
            }
            "Set" => rv("Val", both!(|x| x.set(i, Elem::new(v))).val(), json!([])),
            "Remove" => rv("Val", both!(|x| x.remove(i)).val(), json!([])),
            "Truncate" => {
                both!(|x| x.truncate(i));
                nil()
            }
            "Clear" => {
                both!(|x| x.clear());
                nil()
            }
            "Append" => {
                let vs: Vector<Elem> = getvs(o, "vs").into_iter().map(Elem::new).collect();
                both!(|x| x.append(vs));
                nil()
            }
            "EntrySet" => {
                if in_txn {
                    let t = self.txn.as_mut().expect("txn");
                    let mut e = t.entry(i);
                    rv("Val", ObservableVectorTransactionEntry::set(&mut e, Elem::new(v)).val(), json!([]))
                } else {
                    let t = self.vec.as_mut().expect("vec");
                    let mut e = t.entry(i);
                    rv("Val", ObservableVectorEntry::set(&mut e, Elem::new(v)).val(), json!([]))
                }
            }
            "EntryRemove" => {
                if in_txn {
                    let t = self.txn.as_mut().expect("txn");
                    let e = t.entry(i);
                    rv("Val", ObservableVectorTransactionEntry::remove(e).val(), json!([]))
                } else {
                    let t = self.vec.as_mut().expect("vec");
                    let e = t.entry(i);
                    rv("Val", ObservableVectorEntry::remove(e).val(), json!([]))
                }
            }
            "Entries" => {
                let decs = getvs(o, "vs");
                let via = i; // 0 for_each, 1 entries()
                let mut vis: Vec<i64> = Vec::new();
                let mut pos = 0usize;
                let stop = ();
                if in_txn {
                    let t = self.txn.as_mut().expect("txn");
                    if via == 0 {
                        t.for_each(|entry| {
                            walk_entry!(entry, ObservableVectorTransactionEntry, decs, pos, vis, stop)
                        });
                    } else {
                        let mut it = t.entries();
                        while pos < decs.len() && decs[pos] != 4 {
                            match it.next() {
                                Some(entry) => {
                                    walk_entry!(entry, ObservableVectorTransactionEntry, decs, pos, vis, stop)
                                }
                                None => break,
                            }
                        }
                    }
                } else {
                    let t = self.vec.as_mut().expect("vec");
                    if via == 0 {
                        t.for_each(|entry| walk_entry!(entry, ObservableVectorEntry, decs, pos, vis, stop));
                    } else {
                        let mut it = t.entries();
                        while pos < decs.len() && decs[pos] != 4 {
                            match it.next() {
                                Some(entry) => walk_entry!(entry, ObservableVectorEntry, decs, pos, vis, stop),
                                None => break,
                            }
                        }
                    }
                }
                rv("Vis", 0, json!(vis))
            }
            "TxnBegin" => {
                let vp: *mut ObservableVector<Elem> = &mut **self.vec.as_mut().expect("vec");
                let t: ObservableVectorTransaction<'static, Elem> = unsafe { (*vp).transaction() };
                self.txn = Some(t);
                nil()
            }
            "TxnCommit" => {
                self.txn.take().expect("txn").commit();
                nil()
            }
            "TxnRollback" => {
                self.txn.as_mut().expect("txn").rollback();
                nil()
            }
            "TxnDrop" => {
                drop(self.txn.take().expect("txn"));
                nil()
            }
            "DropVector" => {
                assert!(self.txn.is_none());
                drop(self.vec.take().expect("vec"));
                nil()
            }
            _ => return None,
        };
        Some(r)
    }
}

pub enum SubState {
    Lazy(VectorSubscriber<Elem>, bool),
    Plain(VectorSubscriberStream<Elem>),
    Batched(VectorSubscriberBatchedStream<Elem>),
    Gone,
}

/// Poll `st` until it is not ready, at most `budget` times (0 = unbounded).
/// Returns (items as batches of diffs, end).
pub fn poll_group<S, I>(st: &mut S, budget: i64, cx: &mut Context<'_>, to_batch: impl Fn(&I) -> Value) -> (Vec<Value>, &'static str)
where
    S: Stream<Item = I> + Unpin,
{
    let mut items = Vec::new();
    let mut n = 0;
    loop {
        match Pin::new(&mut *st).poll_next(cx) {
            Poll::Pending => return (items, "Pending"),
            Poll::Ready(None) => return (items, "End"),
            Poll::Ready(Some(it)) => {
                items.push(to_batch(&it));
                n += 1;
                if budget != 0 && n >= budget {
                    return (items, "More");
                }
                if n > 100_000 {
                    return (items, "Runaway");
                }
            }
        }
    }
}

#[derive(Default)]
struct Ctx {
    subs: BTreeMap<i64, SubState>,
    flags: BTreeMap<i64, Arc<Flag>>,
    /// waker policy "reuse": the one waker each subscriber is always polled with
    own: BTreeMap<i64, Arc<Flag>>,
    reuse_wakers: bool,
    src: Source,
}

impl Ctx {
    fn exec(&mut self, o: &Value, ev: &mut Value) -> Value {
        let op = gets(o, "op");
        let s = geti(o, "s");
        let k = geti(o, "k");
        match op {
            "Subscribe" => {
                let sub = self.src.vec.as_ref().expect("vec").subscribe();
                let snap = seq_json(sub.values().iter());
                self.subs.insert(s, SubState::Lazy(sub, k == 1));
                self.flags.remove(&s);
                rv("Val", 0, snap)
            }
            "DropSub" => {
                self.subs.remove(&s).expect("sub");
                self.flags.remove(&s);
                rv("Nil", 0, json!([]))
            }
            "Poll" => {
                let st = self.subs.get_mut(&s).expect("sub");
                if let SubState::Lazy(..) = st {
                    match mem::replace(st, SubState::Gone) {
                        SubState::Lazy(sub, true) => *st = SubState::Batched(sub.into_batched_stream()),
                        SubState::Lazy(sub, false) => {
                            // alternate between the two conversion paths
                            if s % 2 == 0 {
                                *st = SubState::Plain(sub.into_stream())
                            } else {
                                *st = SubState::Plain(sub.into_values_and_stream().1)
                            }
                        }
                        _ => unreachable!(),
                    }
                }
                let wk = self.flags.get(&s).map(|f| f.is_set());
                let flag = if self.reuse_wakers { self.own.entry(s).or_insert_with(Flag::new).clone() } else { Flag::new() };
                flag.clear();
                let waker = waker_of(&flag);
                let mut cx = Context::from_waker(&waker);
                let (items, end) = match st {
                    SubState::Plain(st) => poll_group(st, k, &mut cx, |d| json!([diff_json(d)])),
                    SubState::Batched(st) => {
                        poll_group(st, k, &mut cx, |b| Value::Array(b.iter().map(diff_json).collect()))
                    }
                    _ => unreachable!(),
                };
                if end == "Pending" {
                    self.flags.insert(s, flag);
                } else {
                    self.flags.remove(&s);
                }
                ev["items"] = Value::Array(items);
                ev["wk"] = json!(match wk { Some(true) => 1, Some(false) => 0, None => -1 });
                rv(end, 0, json!([]))
            }
            _ => self.src.exec(o).unwrap_or_else(|| panic!("harness: unknown vec op {op}")),
        }
    }
}

pub fn run_behaviour(tr: &Tracer, run: i64, ops: &[Value]) {
    let first = &ops[0];
    assert_eq!(gets(first, "op"), "New");
    let cap = geti(first, "i");
    let init = getvs(first, "vs");
    let presubs = geti(first, "k");
    tr.emit(&json!({"e": "Begin", "run": run, "layer": "vec", "cap": cap, "init": init, "presubs": presubs}));
    set_fresh(1);
    // driver policy (field v of the first record): bit 0 = poll a subscriber always with the same waker,
    // bits 1, 2 = how the vector and its initial contents are created
    let pol = geti(first, "v");
    let mut cx = Ctx { src: Source::new(cap, pol & 2 != 0), reuse_wakers: pol & 1 != 0, ..Default::default() };
    if !init.is_empty() {
        // initial contents exist before anybody subscribes (alternating between append and From<Vector>)
        let v: Vector<Elem> = init.iter().map(|v| Elem::new(*v)).collect();
        if pol & 4 != 0 && cap == 16 {
            cx.src.vec = Some(Box::new(ObservableVector::from(v)));
        } else {
            cx.src.vec.as_mut().unwrap().append(v);
        }
    }
    for s in 1..=presubs {
        let sub = cx.src.vec.as_ref().unwrap().subscribe();
        cx.subs.insert(s, SubState::Lazy(sub, s == 2));
    }
    for o in &ops[1..] {
        let mut ev = json!({"e": "Op", "run": run, "op": o["op"], "t": o["t"], "s": geti(o, "s"), "i": geti(o, "i"),
                            "v": geti(o, "v"), "vs": o["vs"], "k": geti(o, "k")});
        if gets(o, "op") == "Poll" {
            // a panic inside the poll is data: the event keeps its shape
            ev["items"] = json!([]);
            ev["wk"] = json!(-1);
        }
        tr.begin_call(ev.clone());
        let r = catch(|| cx.exec(o, &mut ev));
        tr.end_call();
        ev["ret"] = r.unwrap_or_else(|_| rv("Panic", 0, json!([])));
        ev["contents"] = cx.src.contents();
        ev["work"] = cx.src.work();
        if tracking() {
            ev["tok"] = Value::Array(drain_tok_log());
        }
        tr.emit(&ev);
    }
    let r = catch(move || drop(cx));
    let mut end = json!({"e": "EndRun", "run": run, "ok": if r.is_ok() {1} else {0}});
    if tracking() {
        end["tok"] = Value::Array(drain_tok_log());
    }
    tr.emit(&end);
}

pub fn replay(path: &str, out: &str) {
    let tr = Tracer::create(out);
    let tr2 = tr.clone();
    let path = path.to_string();
    with_watchdog(tr, 20, move || {
        for (i, b) in read_lines(&path).enumerate() {
            let ops = b.as_array().expect("behaviour must be an array");
            run_behaviour(&tr2, i as i64 + 1, ops);
        }
    });
}
