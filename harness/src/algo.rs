//! Arm-by-arm conformance of Head / Tail / Skip / Filter / FilterMap against AdapterAlgo.tla and of the sort
//! family against SortAlgo.tla:
//! each case `{kind, s, p, d, new}` builds the real adapter over a scripted
//! input stream (initial values `s`, limit/count `p`), feeds it the single
//! input diff `d` (or the limit change `p -> new`) and records what it emits.

use std::{
    collections::VecDeque,
    pin::Pin,
    task::{Context, Poll},
};

use eyeball_im::VectorDiff;
use eyeball_im_util::vector::VectorObserverExt;
use futures_core::Stream;
use imbl::Vector;
use serde_json::{json, Value};

use crate::{
    util::*,
    vec::{diff_json, poll_group},
};

struct Script<I>(VecDeque<I>);
impl<I> Unpin for Script<I> {}
impl<I> Stream for Script<I> {
    type Item = I;
    fn poll_next(mut self: Pin<&mut Self>, _cx: &mut Context<'_>) -> Poll<Option<I>> {
        match self.0.pop_front() {
            Some(x) => Poll::Ready(Some(x)),
            None => Poll::Pending,
        }
    }
}

fn diff_of(d: &Value) -> VectorDiff<Elem> {
    let i = geti(d, "i") as usize;
    let v = geti(d, "v");
    let vs = || -> Vector<Elem> { getvs(d, "vs").into_iter().map(Elem::new).collect() };
    match gets(d, "k") {
        "Append" => VectorDiff::Append { values: vs() },
        "Clear" => VectorDiff::Clear,
        "PushFront" => VectorDiff::PushFront { value: Elem::new(v) },
        "PushBack" => VectorDiff::PushBack { value: Elem::new(v) },
        "PopFront" => VectorDiff::PopFront,
        "PopBack" => VectorDiff::PopBack,
        "Insert" => VectorDiff::Insert { index: i, value: Elem::new(v) },
        "Set" => VectorDiff::Set { index: i, value: Elem::new(v) },
        "Remove" => VectorDiff::Remove { index: i },
        "Truncate" => VectorDiff::Truncate { length: i },
        "Reset" => VectorDiff::Reset { values: vs() },
        k => panic!("harness: unknown diff kind {k}"),
    }
}

fn run_case(c: &Value, batched: bool) -> (Value, Value, &'static str) {
    let kind = gets(c, "kind");
    let s: Vector<Elem> = getvs(c, "s").into_iter().map(Elem::new).collect();
    let p = geti(c, "p") as usize;
    let new = geti(c, "new");
    let flag = Flag::new();
    let waker = waker_of(&flag);
    let mut cx = Context::from_waker(&waker);
    let lim: VecDeque<usize> = if new >= 0 { VecDeque::from([new as usize]) } else { VecDeque::new() };
    macro_rules! go {
        ($item:ty, $mk:expr, $tob:expr) => {{
            let input: VecDeque<$item> = if new >= 0 { VecDeque::new() } else { VecDeque::from([$mk(diff_of(&c["d"]))]) };
            let obs = (s.clone(), Script(input));
            match kind {
                "head" => {
                    let (init, mut st) = obs.dynamic_head_with_initial_value(p, Script(lim));
                    let (items, end) = poll_group(&mut st, 0, &mut cx, $tob);
                    (seq_json(init.iter()), Value::Array(items), end)
                }
                "tail" => {
                    let (init, mut st) = obs.dynamic_tail_with_initial_value(p, Script(lim));
                    let (items, end) = poll_group(&mut st, 0, &mut cx, $tob);
                    (seq_json(init.iter()), Value::Array(items), end)
                }
                "filter" => {
                    let (init, mut st) = obs.filter(|e: &Elem| e.v.rem_euclid(2) == 1);
                    let (items, end) = poll_group(&mut st, 0, &mut cx, $tob);
                    (seq_json(init.iter()), Value::Array(items), end)
                }
                "filter_map" => {
                    let (init, mut st) =
                        obs.filter_map(|e: Elem| if e.v.rem_euclid(2) == 1 { Some(Elem::new(e.v + 100)) } else { None });
                    let (items, end) = poll_group(&mut st, 0, &mut cx, $tob);
                    (seq_json(init.iter()), Value::Array(items), end)
                }
                "sort" => {
                    let (init, mut st) = obs.sort();
                    let (items, end) = poll_group(&mut st, 0, &mut cx, $tob);
                    (seq_json(init.iter()), Value::Array(items), end)
                }
                "sort_by" => {
                    let (init, mut st) = obs.sort_by(|a: &Elem, b: &Elem| (b.v.rem_euclid(4)).cmp(&a.v.rem_euclid(4)));
                    let (items, end) = poll_group(&mut st, 0, &mut cx, $tob);
                    (seq_json(init.iter()), Value::Array(items), end)
                }
                "sort_by_key" => {
                    let (init, mut st) = obs.sort_by_key(|e: &Elem| e.v.rem_euclid(3));
                    let (items, end) = poll_group(&mut st, 0, &mut cx, $tob);
                    (seq_json(init.iter()), Value::Array(items), end)
                }
                _ => {
                    let (init, mut st) = obs.dynamic_skip_with_initial_count(p, Script(lim));
                    let (items, end) = poll_group(&mut st, 0, &mut cx, $tob);
                    (seq_json(init.iter()), Value::Array(items), end)
                }
            }
        }};
    }
    if batched {
        go!(Vec<VectorDiff<Elem>>, |d| vec![d], |b: &Vec<VectorDiff<Elem>>| Value::Array(b.iter().map(diff_json).collect()))
    } else {
        go!(VectorDiff<Elem>, |d| d, |d: &VectorDiff<Elem>| json!([diff_json(d)]))
    }
}

pub fn run(path: &str, out: &str) {
    let tr = Tracer::create(out);
    let tr2 = tr.clone();
    let path = path.to_string();
    with_watchdog(tr, 20, move || {
        let mut run = 0;
        for c in read_lines(&path) {
            for batched in [false, true] {
                run += 1;
                let r = catch(|| run_case(&c, batched));
                let (init, items, end) = match r {
                    Ok(x) => x,
                    Err(_) => (json!([]), json!([]), "Panic"),
                };
                tr2.emit(&json!({"e": "Case", "run": run, "kind": c["kind"], "s": c["s"], "p": c["p"], "d": c["d"], "new": c["new"],
                                 "expect": c["expect"], "flav": if batched {"batched"} else {"plain"},
                                 "init": init, "items": items, "end": end}));
            }
        }
    });
}
