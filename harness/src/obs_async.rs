//! Replayer for the `obs` layer, ASYNC-LOCK flavour (C16).
//!
//! Same operation vocabulary as obs.rs.  Every async call is a future that a
//! hand-rolled executor polls: `now` polls it exactly once with a flag waker
//! (with the lock free it must complete at once, like the sync call).  Calls
//! issued while a guard is held are started with `Start*` (the future is kept,
//! its wake flag logged) and completed with `PollFut`.

use std::{
    collections::BTreeMap,
    future::Future,
    mem,
    pin::Pin,
    sync::Arc,
    task::{Context, Poll},
};

use eyeball::{
    AsyncLock, Observable, ObservableReadGuard, ObservableWriteGuard, SharedObservable, Subscriber,
    WeakObservable,
};
use futures_core::Stream;
use serde_json::{json, Value};

use crate::util::*;

type Obs = Observable<Elem, AsyncLock>;
type Sh = SharedObservable<Elem, AsyncLock>;
type Sub = Subscriber<Elem, AsyncLock>;
type RG = ObservableReadGuard<'static, Elem, AsyncLock>;
type WG = ObservableWriteGuard<'static, Elem, AsyncLock>;

enum Owner {
    Unique(Box<Obs>),
    Shared(Box<Sh>),
}

enum Guard {
    Read(#[allow(dead_code)] RG),
    Write(WG),
}

impl Guard {
    fn get(&self) -> i64 {
        match self {
            Guard::Read(g) => g.val(),
            Guard::Write(g) => g.val(),
        }
    }
}

type Fut = Pin<Box<dyn Future<Output = Value>>>;

#[derive(Default)]
struct Ctx {
    // field order = drop order: futures and guards borrow from subs / owners
    futs: BTreeMap<i64, (Fut, Arc<Flag>)>,
    /// a `next_ref()` future that returned Pending, kept for the next poll of the same subscriber (the call is
    /// one future: its second lock acquisition must not be cancelled by dropping it between polls)
    ref_futs: BTreeMap<i64, (&'static str, Pin<Box<dyn Future<Output = Option<i64>>>>)>,
    guards: BTreeMap<i64, Guard>,
    subs: BTreeMap<i64, Box<Sub>>,
    owners: BTreeMap<i64, Owner>,
    weaks: BTreeMap<i64, WeakObservable<Elem, AsyncLock>>,
    flags: BTreeMap<i64, Arc<Flag>>,
    nv: i64,
    reuse_wakers: bool,
}

fn ret(t: &str, v: i64) -> Value {
    json!({"t": t, "v": v})
}

/// Poll a future exactly once.
fn now<T>(fut: impl Future<Output = T>) -> Option<T> {
    let flag = Flag::new();
    let waker = waker_of(&flag);
    let mut cx = Context::from_waker(&waker);
    let mut fut = Box::pin(fut);
    match fut.as_mut().poll(&mut cx) {
        Poll::Ready(v) => Some(v),
        Poll::Pending => None,
    }
}

fn done(r: Option<Value>) -> Value {
    r.unwrap_or_else(|| ret("Pending", 0))
}

unsafe fn ext<'a, T: ?Sized>(r: &'a T) -> &'static T {
    mem::transmute(r)
}
unsafe fn ext_mut<'a, T: ?Sized>(r: &'a mut T) -> &'static mut T {
    mem::transmute(r)
}

impl Ctx {
    fn shared(&self, h: i64) -> &'static Sh {
        match self.owners.get(&h) {
            Some(Owner::Shared(s)) => unsafe { ext(&**s) },
            _ => panic!("harness: owner {h} is not a live SharedObservable"),
        }
    }

    /// The future of a writer call (`kind` in Set/Take/SetIfNotEq/SetIfHashNotEq/Update/UpdateIf).
    fn writer_future(&mut self, kind: &str, h: i64, a: i64, b: bool) -> Fut {
        let nv = self.nv;
        let opt = |r: Option<Elem>| match r {
            Some(p) => ret("Val", p.val()),
            None => ret("Nil", 0),
        };
        let kind = kind.to_string();
        match self.owners.get_mut(&h).expect("owner") {
            Owner::Unique(ob) => {
                let ob: &'static mut Obs = unsafe { ext_mut(&mut **ob) };
                Box::pin(async move {
                    match kind.as_str() {
                        "Set" => ret("Val", Observable::set_async(ob, Elem::new(a)).await.val()),
                        "Take" => ret("Val", Observable::take_async(ob).await.val()),
                        "SetIfNotEq" => opt(Observable::set_if_not_eq_async(ob, Elem::new(a)).await),
                        "SetIfHashNotEq" => opt(Observable::set_if_hash_not_eq_async(ob, Elem::new(a)).await),
                        "Update" => {
                            Observable::update_async(ob, |e| e.v = (e.v + a).rem_euclid(nv)).await;
                            ret("Nil", 0)
                        }
                        _ => {
                            Observable::update_if_async(ob, |e| {
                                e.v = (e.v + a).rem_euclid(nv);
                                b
                            })
                            .await;
                            ret("Nil", 0)
                        }
                    }
                })
            }
            Owner::Shared(ob) => {
                let ob: &'static Sh = unsafe { ext(&**ob) };
                Box::pin(async move {
                    match kind.as_str() {
                        "Set" => ret("Val", ob.set(Elem::new(a)).await.val()),
                        "Take" => ret("Val", ob.take().await.val()),
                        "SetIfNotEq" => opt(ob.set_if_not_eq(Elem::new(a)).await),
                        "SetIfHashNotEq" => opt(ob.set_if_hash_not_eq(Elem::new(a)).await),
                        "Update" => {
                            ob.update(|e| e.v = (e.v + a).rem_euclid(nv)).await;
                            ret("Nil", 0)
                        }
                        _ => {
                            ob.update_if(|e| {
                                e.v = (e.v + a).rem_euclid(nv);
                                b
                            })
                            .await;
                            ret("Nil", 0)
                        }
                    }
                })
            }
        }
    }

    fn poll_res(p: Poll<Option<i64>>) -> Value {
        match p {
            Poll::Pending => ret("Pending", 0),
            Poll::Ready(Some(v)) => ret("Some", v),
            Poll::Ready(None) => ret("End", 0),
        }
    }

    fn exec(&mut self, o: &Value) -> Value {
        let op = gets(o, "op");
        let h = geti(o, "h");
        let a = geti(o, "a");
        let b = geti(o, "b") != 0;
        let n = geti(o, "n");
        let nv = self.nv;
        let opt = |r: Option<Elem>| match r {
            Some(p) => ret("Val", p.val()),
            None => ret("Nil", 0),
        };
        // any other call on a subscriber cancels its pending next_ref() future first (it borrows the subscriber)
        if self.ref_futs.get(&h).map_or(false, |(via, _)| *via != op)
            && matches!(op, "Poll" | "PollNext" | "PollNextRef" | "NextNow" | "NextRefNow" | "SubGet" | "SubRead" | "Reset" | "CloneSub" | "CloneReset" | "DropSub")
        {
            self.ref_futs.remove(&h);
        }
        match op {
            "Set" | "Take" | "SetIfNotEq" | "SetIfHashNotEq" | "Update" | "UpdateIf" => {
                let fut = self.writer_future(op, h, a, b);
                done(now(fut))
            }
            // a writer call issued while a guard is alive: keep the future (n = future id)
            "StartSet" | "StartUpdate" | "StartSetIfNotEq" => {
                let mut fut = self.writer_future(&op[5..], h, a, b);
                let flag = Flag::new();
                let waker = waker_of(&flag);
                let mut cx = Context::from_waker(&waker);
                match fut.as_mut().poll(&mut cx) {
                    Poll::Ready(v) => v,
                    Poll::Pending => {
                        self.futs.insert(n, (fut, flag));
                        ret("Pending", 0)
                    }
                }
            }
            "PollFut" => {
                let (mut fut, _old) = self.futs.remove(&h).expect("future");
                let flag = Flag::new();
                let waker = waker_of(&flag);
                let mut cx = Context::from_waker(&waker);
                match fut.as_mut().poll(&mut cx) {
                    Poll::Ready(v) => v,
                    Poll::Pending => {
                        self.futs.insert(h, (fut, flag));
                        ret("Pending", 0)
                    }
                }
            }
            "GSet" | "GTake" | "GSetIfNotEq" | "GSetIfHashNotEq" | "GUpdate" | "GUpdateIf" => {
                let g = match self.guards.get_mut(&h).expect("guard") {
                    Guard::Write(g) => g,
                    _ => panic!("harness: guard {h} is not a write guard"),
                };
                match op {
                    "GSet" => ret("Val", ObservableWriteGuard::set(g, Elem::new(a)).val()),
                    "GTake" => ret("Val", ObservableWriteGuard::take(g).val()),
                    "GSetIfNotEq" => opt(ObservableWriteGuard::set_if_not_eq(g, Elem::new(a))),
                    "GSetIfHashNotEq" => opt(ObservableWriteGuard::set_if_hash_not_eq(g, Elem::new(a))),
                    "GUpdate" => {
                        ObservableWriteGuard::update(g, |e| e.v = (e.v + a).rem_euclid(nv));
                        ret("Nil", 0)
                    }
                    _ => {
                        ObservableWriteGuard::update_if(g, |e| {
                            e.v = (e.v + a).rem_euclid(nv);
                            b
                        });
                        ret("Nil", 0)
                    }
                }
            }
            "Get" => match self.owners.get(&h).expect("owner") {
                Owner::Unique(ob) => ret("Val", Observable::get_async(ob).val()),
                Owner::Shared(ob) => done(now(ob.get()).map(|e| ret("Val", e.val()))),
            },
            "Subscribe" => {
                let s = match self.owners.get(&h).expect("owner") {
                    Owner::Unique(ob) => Some(Observable::subscribe_async(ob)),
                    Owner::Shared(ob) => now(ob.subscribe()),
                };
                match s {
                    Some(s) => {
                        self.subs.insert(n, Box::new(s));
                        self.flags.remove(&n);
                        ret("Nil", 0)
                    }
                    None => ret("Pending", 0),
                }
            }
            "SubscribeReset" => {
                let s = match self.owners.get(&h).expect("owner") {
                    Owner::Unique(ob) => Observable::subscribe_reset_async(ob),
                    Owner::Shared(ob) => ob.subscribe_reset(),
                };
                self.subs.insert(n, Box::new(s));
                self.flags.remove(&n);
                ret("Nil", 0)
            }
            "CloneOwner" => {
                let c = self.shared(h).clone();
                self.owners.insert(n, Owner::Shared(Box::new(c)));
                ret("Nil", 0)
            }
            "DropOwner" => {
                drop(self.owners.remove(&h).expect("owner"));
                ret("Nil", 0)
            }
            "IntoShared" => {
                match self.owners.remove(&h).expect("owner") {
                    Owner::Unique(ob) => {
                        let sh = Observable::into_shared(*ob);
                        self.owners.insert(h, Owner::Shared(Box::new(sh)));
                    }
                    _ => panic!("harness: IntoShared on shared"),
                }
                ret("Nil", 0)
            }
            "Downgrade" => {
                let w = self.shared(h).downgrade();
                self.weaks.insert(n, w);
                ret("Nil", 0)
            }
            "CloneWeak" => {
                let w = self.weaks.get(&h).expect("weak").clone();
                self.weaks.insert(n, w);
                ret("Nil", 0)
            }
            "DropWeak" => {
                self.weaks.remove(&h).expect("weak");
                ret("Nil", 0)
            }
            "Upgrade" => match self.weaks.get(&h).expect("weak").upgrade() {
                Some(o) => {
                    if n > 0 {
                        self.owners.insert(n, Owner::Shared(Box::new(o)));
                    }
                    ret("Ok", 0)
                }
                None => ret("Fail", 0),
            },
            "Read" => match now(self.shared(h).read()) {
                Some(g) => {
                    let v = g.val();
                    self.guards.insert(n, Guard::Read(g));
                    ret("Val", v)
                }
                None => ret("Pending", 0),
            },
            "TryRead" => match self.shared(h).try_read() {
                Some(g) => {
                    let v = g.val();
                    self.guards.insert(n, Guard::Read(g));
                    ret("Val", v)
                }
                None => ret("Fail", 0),
            },
            "Write" => match now(self.shared(h).write()) {
                Some(g) => {
                    let v = g.val();
                    self.guards.insert(n, Guard::Write(g));
                    ret("Val", v)
                }
                None => ret("Pending", 0),
            },
            "TryWrite" => match self.shared(h).try_write() {
                Some(g) => {
                    let v = g.val();
                    self.guards.insert(n, Guard::Write(g));
                    ret("Val", v)
                }
                None => ret("Fail", 0),
            },
            "GuardGet" => ret("Val", self.guards.get(&h).expect("guard").get()),
            "DropGuard" => {
                self.guards.remove(&h).expect("guard");
                ret("Nil", 0)
            }
            "Poll" | "PollNext" | "PollNextRef" => {
                // waker policy: a fresh waker per poll, or the subscriber's one waker again (cleared first)
                let flag = match self.flags.get(&h) {
                    Some(f) if self.reuse_wakers => {
                        f.clear();
                        f.clone()
                    }
                    _ => Flag::new(),
                };
                let waker = waker_of(&flag);
                let mut cx = Context::from_waker(&waker);
                let sub = self.subs.get_mut(&h).expect("sub");
                let r = match op {
                    "Poll" => Pin::new(&mut **sub).poll_next(&mut cx).map(|o| o.map(|e| e.val())),
                    // next() / next_ref(): one (two-stage) future per call, kept while Pending
                    _ => {
                        let via: &'static str = if op == "PollNext" { "PollNext" } else { "PollNextRef" };
                        let mut fut = match self.ref_futs.remove(&h) {
                            Some((_, f)) => f,
                            None => {
                                let sub: &'static mut Sub = unsafe { ext_mut(&mut **sub) };
                                if op == "PollNext" {
                                    Box::pin(async move { sub.next().await.map(|e| e.val()) }) as Pin<Box<dyn Future<Output = Option<i64>>>>
                                } else {
                                    Box::pin(async move { sub.next_ref().await.map(|g| g.val()) })
                                }
                            }
                        };
                        let r = fut.as_mut().poll(&mut cx);
                        if r.is_pending() {
                            self.ref_futs.insert(h, (via, fut));
                        }
                        r
                    }
                };
                self.flags.insert(h, flag);
                Self::poll_res(r)
            }
            "NextNow" => done(now(self.subs.get_mut(&h).expect("sub").next_now()).map(|e| ret("Val", e.val()))),
            "NextRefNow" => {
                let sub: &'static mut Sub = unsafe { ext_mut(&mut **self.subs.get_mut(&h).expect("sub")) };
                match now(sub.next_ref_now()) {
                    Some(g) => {
                        let v = g.val();
                        self.guards.insert(n, Guard::Read(g));
                        ret("Val", v)
                    }
                    None => ret("Pending", 0),
                }
            }
            "SubGet" => done(now(self.subs.get(&h).expect("sub").get()).map(|e| ret("Val", e.val()))),
            "SubRead" => {
                let sub: &'static Sub = unsafe { ext(&**self.subs.get(&h).expect("sub")) };
                match now(sub.read()) {
                    Some(g) => {
                        let v = g.val();
                        self.guards.insert(n, Guard::Read(g));
                        ret("Val", v)
                    }
                    None => ret("Pending", 0),
                }
            }
            "Reset" => {
                self.subs.get_mut(&h).expect("sub").reset();
                ret("Nil", 0)
            }
            "CloneSub" => {
                let c = self.subs.get(&h).expect("sub").as_ref().clone();
                self.subs.insert(n, Box::new(c));
                self.flags.remove(&n);
                ret("Nil", 0)
            }
            "CloneReset" => {
                let c = self.subs.get(&h).expect("sub").clone_reset();
                self.subs.insert(n, Box::new(c));
                self.flags.remove(&n);
                ret("Nil", 0)
            }
            "DropSub" => {
                drop(self.subs.remove(&h).expect("sub"));
                self.flags.remove(&h);
                ret("Nil", 0)
            }
            other => panic!("harness: unknown obs op {other}"),
        }
    }

    fn observe(&self) -> (Value, Value, Value) {
        let wk: Vec<i64> = self
            .flags
            .iter()
            .filter(|(s, f)| self.subs.contains_key(s) && f.is_set())
            .map(|(s, _)| *s)
            .collect();
        let fwk: Vec<i64> = self.futs.iter().filter(|(_, (_, f))| f.is_set()).map(|(i, _)| *i).collect();
        let cnt = match self.owners.values().next() {
            Some(Owner::Unique(ob)) => {
                json!({"oc": -1, "sc": Observable::subscriber_count(ob) as i64, "st": -1, "wc": -1})
            }
            Some(Owner::Shared(ob)) => json!({
                "oc": ob.observable_count() as i64,
                "sc": ob.subscriber_count() as i64,
                "st": ob.strong_count() as i64,
                "wc": ob.weak_count() as i64}),
            None => json!({"oc": -1, "sc": -1, "st": -1, "wc": -1}),
        };
        (json!(wk), json!(fwk), cnt)
    }
}

pub fn run_behaviour(tr: &Tracer, run: i64, ops: &[Value], nv: i64) {
    let mut cx = Ctx { nv, reuse_wakers: geti(&ops[0], "n") == 1, ..Default::default() };
    let first = &ops[0];
    assert_eq!(gets(first, "op"), "New");
    let shared = geti(first, "b") != 0;
    let init = geti(first, "a");
    tr.emit(&json!({"e": "Begin", "run": run, "layer": "obs", "flavor": "async",
                    "shared": if shared {1} else {0}, "init": init, "nv": nv,
                    "two": first.get("two").and_then(|x| x.as_i64()).unwrap_or(1)}));
    if shared {
        cx.owners.insert(1, Owner::Shared(Box::new(SharedObservable::new_async(Elem::new(init)))));
    } else {
        cx.owners.insert(1, Owner::Unique(Box::new(Observable::new_async(Elem::new(init)))));
    }
    for o in &ops[1..] {
        let mut ev = json!({"e": "Call", "run": run, "op": o["op"], "h": geti(o, "h"),
                            "a": geti(o, "a"), "b": geti(o, "b"), "n": geti(o, "n")});
        tr.begin_call(ev.clone());
        let r = catch(|| cx.exec(o));
        tr.end_call();
        let panicked = r.is_err();
        ev["ret"] = r.unwrap_or_else(|_| ret("Panic", 0));
        let (wk, fwk, cnt) = if panicked {
            (json!([]), json!([]), json!({"oc":-1,"sc":-1,"st":-1,"wc":-1}))
        } else {
            cx.observe()
        };
        ev["wk"] = wk;
        ev["fwk"] = fwk;
        ev["cnt"] = cnt;
        if tracking() {
            ev["tok"] = Value::Array(drain_tok_log());
        }
        tr.emit(&ev);
        if panicked {
            mem::forget(cx);
            return;
        }
    }
    let r = catch(move || drop(cx));
    let mut end = json!({"e": "EndRun", "run": run, "ok": if r.is_ok() {1} else {0}});
    if tracking() {
        end["tok"] = Value::Array(drain_tok_log());
    }
    tr.emit(&end);
}

pub fn replay(path: &str, out: &str, nv: i64) {
    let tr = Tracer::create(out);
    let tr2 = tr.clone();
    let path = path.to_string();
    with_watchdog(tr, 20, move || {
        for (i, b) in read_lines(&path).enumerate() {
            let ops = b.as_array().expect("behaviour must be an array");
            run_behaviour(&tr2, i as i64 + 1, ops, nv);
        }
    });
}
