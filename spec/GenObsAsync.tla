----------------------------- MODULE GenObsAsync -----------------------------
(* MC + behaviour generation for the async-lock flavour (ObsAsync.tla). *)
EXTENDS ObsAsync, Json
CONSTANT Depth
View == acore
Bound == Len(hist) <= Depth
BoundTree == Len(hist) <= Depth + 1
PrintAtDepth == Len(hist) = Depth + 1 => PrintT(<<"B", ToJson(hist)>>)
Edge == PrintT(<<"B", ToJson(hist')>>)

(* The waiting regime as a COMPLETE tree: one or two subscribers (SubIds) and a write guard first, then every path over guard      *)
(* updates / drop, polls through the stream and through next_ref(), writer calls (Update: the order of completion  *)
(* shows in the value), re-polls of whoever waits, and a new guard once everybody is done.                         *)
WaitVias == {"Poll", "PollNext"}
NextAWait ==
    IF Len(hist) = 1 THEN Plain(SubscribeReset(1, 1))              \* subscriber 1 starts with something unseen
    ELSE IF Len(hist) = 2 /\ 2 \in SubIds THEN Plain(Subscribe(1, 2))
    ELSE IF guards[1].t = "none" /\ Len(hist) <= 3 /\ ~(\E i \in 1..Len(hist) : hist[i].op = "Write") THEN Plain(OwnerWrite(1, 1))
    ELSE \/ \E g \in GuardIds : DropGuardA(g)
         \/ Plain(\E g \in WriteGuards : Set("g", g, 1))
         \/ \E f \in FutIds : PollFut(f)
         \/ \E s \in WaitingSubs, two \in TwoStage : PollWaiting(s, WaiterOf(s).via, two)
         \/ \E s \in SubIds \ WaitingSubs, via \in WaitVias : PollBlocked(s, via)
         \/ Plain(\E s \in SubIds \ WaitingSubs, via \in WaitVias : ReadNow /\ Poll(s, via))
         \/ \E f \in {Smallest(FutIds \ PendingFuts)} : f \in FutIds /\ StartWriter(1, f, "Update", 1)
         \/ Quiet /\ Plain(\E g \in NewGuard : OwnerWrite(1, g) \/ OwnerRead(1, g))
SpecAWait == AInit /\ val = 0 /\ [][NextAWait]_allvars
=============================================================================
