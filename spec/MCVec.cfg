SPECIFICATION Spec
CONSTANTS
  MaxDecs = 2
  SubIds = {1, 2}
  Caps = {1, 2}
  MaxLen = 2
  LagThenClosedLosesState = FALSE
  MaxOps = 5
VIEW View
CONSTRAINT Bound
INVARIANTS TypeOK PollAccepted AtPendingEqual NoEmptyMessage
PROPERTIES EndOnlyWhenDead EndOnFinalState TxnInvisible AbandonIsNoop
CHECK_DEADLOCK FALSE
