------------------------------- MODULE GenVec -------------------------------
(* Behaviour generation from Vec.tla.  Focused next-state relations keep   *)
(* the branching factor on what each property quantifies over.             *)
EXTENDS Vec, Json
CONSTANT Depth
View == core
Bound == Len(hist) <= Depth
BoundTree == Len(hist) <= Depth + 1
PrintAtDepth == Len(hist) = Depth + 1 => PrintT(<<"B", ToJson(hist)>>)
Edge == PrintT(<<"B", ToJson(hist')>>)

SubNext == \E s \in SubIds : (\E k \in {0, 1} : Subscribe(s, k)) \/ (\E k \in {0, 1, 2} : Poll(s, k))
SubNextFull == SubNext \/ (\E s \in SubIds : DropSub(s))
TxnNext == TxnBegin \/ TxnCommit \/ TxnRollback \/ TxnDrop

(* in-range mutators only (C05/C06/C08: what subscribers receive) *)
MutInRange(w) ==
    \/ PushBack(w, fresh) \/ PushFront(w, fresh) \/ PopBack(w) \/ PopFront(w) \/ Clear(w)
    \/ \E i \in 0..Len(Cur(w)) : \/ Insert(w, i, fresh) \/ Truncate(w, i)
    \/ \E i \in 0..(Len(Cur(w)) - 1) : SetAt(w, i, fresh, "Set") \/ RemoveIdx(w, i, "Remove")
    \/ \E k \in 0..2 : AppendK(w, k)

EntriesSome(w) == \E via \in {0, 1}, n \in 1..MaxDecs : \E decs \in [1..n -> 0..4] : Entries(w, via, decs)

NextStreams == MutInRange("v") \/ SubNextFull \/ DropVector
SpecStreams == Init /\ [][NextStreams]_vars

NextTxn == MutInRange("v") \/ MutInRange("t") \/ TxnNext \/ SubNext \/ EntriesSome("t")
SpecTxn == Init /\ [][NextTxn]_vars

NextAll == MutNext \/ EntriesNext \/ TxnNext \/ SubNextFull \/ DropVector
SpecAll == Init /\ [][NextAll]_vars

(* C17: all indices incl. out of range, entry traversal decisions, no subscribers needed *)
NextMut == MutNext \/ EntriesNext \/ TxnNext \/ (\E k \in {0, 1} : Subscribe(1, k)) \/ Poll(1, 0)
SpecMut == Init /\ [][NextMut]_vars
=============================================================================
