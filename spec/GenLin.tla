------------------------------- MODULE GenLin -------------------------------
(***************************************************************************)
(* Thread programs for the concurrent checks (C02, C03, C04).              *)
(*                                                                         *)
(* A behaviour of this module is a sequential history of Obs.tla in which  *)
(* every handle is used by exactly one thread: thread t owns owner-clone   *)
(* t, subscriber t, weak reference t and guard t.  A setup prefix (run by  *)
(* the main thread) creates the handles, then "Go", then the concurrent    *)
(* part.  The harness projects the concurrent part on each thread to get   *)
(* its program and runs the programs on real threads; the real             *)
(* interleaving is whatever the machine (or the director) produces, and    *)
(* the recorded history is judged by TraceLin.                             *)
(***************************************************************************)
EXTENDS Obs, Json

CONSTANTS Threads, Depth, SetupMin, SetupMax

VARIABLE phase
lvars == <<vars, phase>>

OpsBy(t) == Cardinality({j \in 1..Len(hist) : hist[j].h = t /\ hist[j].op # "New"})
(* distinguishable values: 100 * thread + sequence number *)
ValFor(t) == 100 * t + OpsBy(t) + 1

LInit == Init /\ kind \in Kinds /\ val = 0 /\ phase = "setup"     \* Kinds = {"unique"}: thread 1 has the Observable, the others subscribe

Setup ==
    /\ phase = "setup" /\ Len(hist) <= SetupMax
    /\ \/ \E n \in Threads \ owners : CloneOwner(1, n)
       \/ \E n \in Threads \ subs : Subscribe(1, n) \/ SubscribeReset(1, n)
       \/ \E n \in Threads \ weaks : Downgrade(1, n)
    /\ UNCHANGED phase

Go ==
    /\ phase = "setup" /\ phase' = "run" /\ Len(hist) > SetupMin
    /\ hist' = Append(hist, H("Go", 0, 0, 0, 0))
    /\ UNCHANGED core /\ UNCHANGED ret

(* While a thread holds a guard it only uses the guard: taking the lock     *)
(* again on the same thread while a writer waits is the documented          *)
(* self-deadlock hazard of std::sync::RwLock, not a property of eyeball.    *)
HoldsGuard(t) == guards[t].t # "none"

Run ==
    /\ phase = "run" /\ UNCHANGED phase
    /\ \E t \in Threads :
       IF HoldsGuard(t) THEN Set("g", t, ValFor(t)) \/ DropGuard(t) \/ GuardGet(t)
       ELSE
         \/ Set("o", t, ValFor(t)) \/ SetIfNotEq("o", t, ValFor(t)) \/ SetIfNotEq("o", t, val)
         \/ Update("o", t, 1) \/ OwnerGet(t) \/ DropOwner(t)
         \/ OwnerRead(t, t) \/ OwnerWrite(t, t) \/ Set("g", t, ValFor(t)) \/ DropGuard(t) \/ GuardGet(t)
         \/ OwnerTryReadNow(t) \/ OwnerTryWriteNow(t)
         \/ (t \notin subs /\ Subscribe(t, t))
         \/ (t \notin weaks /\ Downgrade(t, t))
         \/ (t \notin owners /\ Upgrade(t, IF owners # {} THEN t ELSE 0))
         \/ NextNow(t) \/ SubGet(t) \/ Reset(t) \/ DropSub(t) \/ SubRead(t, t)
         \/ (PollResult(t) # RPending /\ Poll(t, "PollNext"))

LNext == Setup \/ Go \/ Run
LSpec == LInit /\ [][LNext]_lvars

(* focus for C03: the last handles are dropped / upgraded concurrently *)
RunHandles ==
    /\ phase = "run" /\ UNCHANGED phase
    /\ \E t \in Threads :
         \/ DropOwner(t) \/ Set("o", t, ValFor(t))
         \/ (t \notin weaks /\ Downgrade(t, t))
         \/ (t \notin owners /\ Upgrade(t, IF owners # {} THEN t ELSE 0))
         \/ (PollResult(t) # RPending /\ Poll(t, "PollNext")) \/ SubGet(t)
LSpecHandles == LInit /\ [][Setup \/ Go \/ RunHandles]_lvars

(* Race family: a fixed setup (owner clones 1 and 2, subscriber 3) and EVERY short program over a small     *)
(* alphabet of calls; the driver runs each program many times with the threads released together, so that   *)
(* every pair of calls gets many chances to overlap at instruction granularity (no pause point needed).     *)
SetupRace ==
    /\ phase = "setup" /\ UNCHANGED phase
    /\ \/ (2 \notin owners /\ CloneOwner(1, 2))
       \/ (2 \in owners /\ 3 \notin subs /\ Subscribe(1, 3))
GoRace ==
    /\ phase = "setup" /\ 2 \in owners /\ 3 \in subs /\ phase' = "run"
    /\ hist' = Append(hist, H("Go", 0, 0, 0, 0))
    /\ UNCHANGED core /\ UNCHANGED ret
RunRace ==
    /\ phase = "run" /\ UNCHANGED phase
    /\ \/ Set("o", 1, ValFor(1)) \/ OwnerGet(1) \/ SetIfNotEq("o", 1, ValFor(1))
       \/ Set("o", 2, ValFor(2)) \/ Update("o", 2, 1) \/ DropOwner(2)
       \/ NextNow(3) \/ SubGet(3) \/ Reset(3)
       \/ (PollResult(3) # RPending /\ Poll(3, "PollNext"))
LSpecRace == LInit /\ [][SetupRace \/ GoRace \/ RunRace]_lvars

BoundTree == Len(hist) <= Depth + 1
PrintAtDepth == (Len(hist) = Depth + 1 /\ phase = "run") => PrintT(<<"B", ToJson(hist)>>)
=============================================================================
