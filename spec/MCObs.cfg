SPECIFICATION Spec
CONSTANTS
  NV = 3
  OwnerIds = {1, 2}
  SubIds = {1, 2}
  WeakIds = {1}
  GuardIds = {1, 2}
  Kinds = {"unique", "shared"}
  MaxOps = 6
VIEW View
CONSTRAINT Bound
INVARIANTS TypeOK ReadyIffUnseen ObservedLeVer NoLostWake ArmedRegisteredOrWoken ClosedIffNoOwner UniqueHasOneOwner LockExclusion
PROPERTIES PendingAgain CondSetterNoop AfterEndStaysEnded
CHECK_DEADLOCK FALSE
