------------------------------- MODULE MCAlgo -------------------------------
(***************************************************************************)
(* Exhaustive one-step check of AdapterAlgo.tla against the view rule, in  *)
(* the style of an inductive step: from EVERY consistent state (source of  *)
(* length 0..MaxN, parameter 0..MaxP, view = the demanded view) and every  *)
(* applicable input (each diff kind with each index, Append/Reset of       *)
(* length 0..3, every new limit).  Also prints every case for the          *)
(* arm-by-arm conformance run (GenAlgo).                                   *)
(***************************************************************************)
EXTENDS AdapterAlgo, TLC, Json

CONSTANTS MaxN, MaxP

VARIABLE x
Init == x = 0
Next == x' = x

Src(n) == [j \in 1..n |-> j]
News(k) == [j \in 1..k |-> 10 + j]
Kinds3 == {"head", "tail", "skip"}

InputsFor(s) ==
    LET n == Len(s) IN
    {DClear, DPushFront(9), DPushBack(9)}
    \cup (IF n > 0 THEN {DPopFront, DPopBack} ELSE {})
    \cup {DAppend(News(k)) : k \in 0..3} \cup {DReset(News(k)) : k \in 0..3}
    \cup {DInsert(i, 9) : i \in 0..n} \cup {DSet(i, 9) : i \in 0..(n - 1)}
    \cup {DRemove(i) : i \in 0..(n - 1)}
    \cup {DTruncate(i) : i \in 0..(n - 1)}   \* an ObservableVector (and every adapter) only emits a Truncate that really shortens

DiffCases == {<<k, n, p, d>> : k \in Kinds3, n \in 0..MaxN, p \in 0..MaxP, d \in UNION {InputsFor(Src(m)) : m \in 0..MaxN}}
ValidDiffCase(c) == c[4] \in InputsFor(Src(c[2]))

AllDiffStepsOK ==
    \A k \in Kinds3, n \in 0..MaxN, p \in 0..MaxP : \A d \in InputsFor(Src(n)) :
        DiffStepOK(k, Src(n), p, d) /\ (k \in {"head", "tail"} => DiffStepBounded(k, Src(n), p, d))

(* Skip before the first count: everything is swallowed and the view stays empty *)
SkipNoneOK == \A n \in 0..MaxN : \A d \in InputsFor(Src(n)) : SkipDiff(d, -1, n, Apply(d, Src(n))) = <<>>

(* limit / count changes.  With the deviation switched on (as coded), the wrong cases are EXACTLY the D2 cases *)
AllLimitStepsOK ==
    \A k \in Kinds3, n \in 0..MaxN, old \in 0..MaxP, new \in 0..MaxP :
        IF k = "tail" /\ TailLimitDecreaseUsesOldLimit
        THEN LimitStepOK(k, Src(n), old, new) <=> ~D2Cond(Src(n), old, new)
        ELSE LimitStepOK(k, Src(n), old, new)
SkipFirstCountOK == \A n \in 0..MaxN, new \in 0..MaxP : LimitStepOK("skip", Src(n), -1, new)

(* Filter / FilterMap: sources over values with both outcomes of the predicate, every applicable input *)
FKeep(v) == AlgoKeep(v)
FId(v) == AlgoId(v)
FMap(v) == AlgoMap(v)
FSrcs == UNION {[1..n -> 1..2] : n \in 0..MaxN}
FInputsFor(s) ==
    LET n == Len(s) IN
    {DClear} \cup {DPushFront(v) : v \in {5, 6}} \cup {DPushBack(v) : v \in {5, 6}}
    \cup (IF n > 0 THEN {DPopFront, DPopBack} ELSE {})
    \cup {DAppend(vs) : vs \in {<<>>, <<5>>, <<6>>, <<5, 6>>, <<6, 5, 6>>}}
    \cup {DReset(vs) : vs \in {<<>>, <<6>>, <<6, 6>>, <<5, 6>>, <<6, 5>>}}
    \cup {DInsert(i, v) : i \in 0..n, v \in {5, 6}} \cup {DSet(i, v) : i \in 0..(n - 1), v \in {5, 6}}
    \cup {DRemove(i) : i \in 0..(n - 1)} \cup {DTruncate(i) : i \in 0..(n - 1)}
AllFilterStepsOK ==
    \A s \in FSrcs : \A d \in FInputsFor(s) : FilterStepOK(s, d, FKeep, FId) /\ FilterStepOK(s, d, FKeep, FMap)

ASSUME AllDiffStepsOK
ASSUME AllFilterStepsOK
ASSUME SkipNoneOK
ASSUME AllLimitStepsOK
ASSUME SkipFirstCountOK

(* cases for the conformance run: [kind, s, p, d] and [kind, s, old, new] *)
PrintDiffCases ==
    \A k \in Kinds3, n \in 0..MaxN, p \in 0..MaxP : \A d \in InputsFor(Src(n)) :
        PrintT(<<"B", ToJson([kind |-> k, s |-> Src(n), p |-> p, d |-> d, new |-> -1,
                              expect |-> AlgoDiff(k, d, p, n, Apply(d, Src(n)))])>>)
PrintLimitCases ==
    \A k \in Kinds3, n \in 0..MaxN, old \in 0..MaxP, new \in 0..MaxP :
        PrintT(<<"B", ToJson([kind |-> k, s |-> Src(n), p |-> old, d |-> DClear, new |-> new,
                              expect |-> AlgoLimit(k, old, new, Src(n))])>>)
PrintFilterCases ==
    \A s \in FSrcs : \A d \in FInputsFor(s) :
        /\ PrintT(<<"B", ToJson([kind |-> "filter", s |-> s, p |-> 0, d |-> d, new |-> -1,
                                 expect |-> FilterStep(FilterStateOf(s, FKeep), d, FKeep, FId).out])>>)
        /\ PrintT(<<"B", ToJson([kind |-> "filter_map", s |-> s, p |-> 0, d |-> d, new |-> -1,
                                 expect |-> FilterStep(FilterStateOf(s, FKeep), d, FKeep, FMap).out])>>)
ASSUME PrintDiffCases
ASSUME PrintLimitCases
ASSUME PrintFilterCases
=============================================================================
