------------------------------- MODULE ObsAsync -------------------------------
(***************************************************************************)
(* The async-lock flavour of the observable (C16).                         *)
(*                                                                         *)
(* Every call is a future.  With the lock free a future completes on its   *)
(* first poll with exactly the effect and result of the synchronous call   *)
(* (the actions of Obs.tla, unchanged).  What is new:                      *)
(*  - a subscriber polled while a write guard is alive is Pending, its     *)
(*    waker waits on the lock (lockWait), it is woken when the guard is    *)
(*    dropped (lwoken) and then behaves as if it had not been polled;      *)
(*  - a writer call started while any guard is alive is a pending future   *)
(*    (futs), woken when the last guard is dropped (fwoken) and completed  *)
(*    by polling it again.                                                 *)
(* tokio's RwLock is fair: behind a queued waiter other calls may be       *)
(* Pending too.  The property does not talk about that, so NextAsync keeps *)
(* at most one waiter queued and lets only that waiter take the lock next. *)
(***************************************************************************)
EXTENDS Obs

CONSTANT FutIds

VARIABLES lockWait,   \* subscribers whose last poll was Pending because the write guard was alive
          lwoken,     \* ... and that are owed a wake-up since the guard was dropped
          futs,       \* [FutIds -> pending writer call or NoFut]
          fwoken      \* pending writer futures owed a wake-up

avars == <<lockWait, lwoken, futs, fwoken>>
allvars == <<vars, avars>>
acore == <<core, avars>>

NoFut == [kind |-> "none", o |-> 0, a |-> 0]
PendingFuts == {f \in FutIds : futs[f].kind # "none"}
Quiet == PendingFuts = {} /\ lockWait = {}

AInit == Init /\ lockWait = {} /\ lwoken = {} /\ futs = [f \in FutIds |-> NoFut] /\ fwoken = {}

(* a subscriber polled under the write guard: nothing of the observable is touched *)
PollBlocked(s, via) ==
    /\ s \in subs /\ ~SubBorrowed(s) /\ ~CanRead /\ via \in PollVias
    /\ lockWait' = lockWait \cup {s} /\ lwoken' = lwoken \ {s}
    /\ armed' = [armed EXCEPT ![s] = FALSE]        \* the version waker is not registered by this poll
    /\ owed' = owed \ {s} /\ woken' = woken \ {s}
    /\ ret' = RPending
    /\ hist' = Append(hist, H(via, s, 0, 0, 0))
    /\ UNCHANGED <<kind, val, ver, owners, weaks, subs, obs, unseen, registered, guards, futs, fwoken>>

(* the same subscriber polled again once the lock can be read *)
PollAfterWait(s, via) ==
    /\ s \in lockWait /\ Poll(s, via)
    /\ lockWait' = lockWait \ {s} /\ lwoken' = lwoken \ {s}
    /\ UNCHANGED <<futs, fwoken>>

WriterKinds == {"Set", "SetIfNotEq", "Update"}

StartWriter(o, f, k, a) ==
    /\ o \in owners /\ ~CanWrite /\ k \in WriterKinds /\ a \in Vals
    /\ f \in FutIds \ PendingFuts
    /\ futs' = [futs EXCEPT ![f] = [kind |-> k, o |-> o, a |-> a]]
    /\ fwoken' = fwoken \ {f}
    /\ ret' = RPending
    /\ hist' = Append(hist, H("Start" \o k, o, a, 0, f))
    /\ UNCHANGED <<core, lockWait, lwoken>>

(* the effect of the completed writer call *)
WriterEffect(c) ==
    CASE c.kind = "Set" -> val' = c.a /\ Notify /\ ret' = RVal(val)
      [] c.kind = "SetIfNotEq" -> IF c.a # val THEN val' = c.a /\ Notify /\ ret' = RVal(val)
                                  ELSE UNCHANGED val /\ NoNotify /\ ret' = RNil
      [] OTHER -> val' = (val + c.a) % NV /\ Notify /\ ret' = RNil

PollFut(f) ==
    /\ f \in PendingFuts
    /\ hist' = Append(hist, H("PollFut", f, 0, 0, 0))
    /\ IF CanWrite
       THEN /\ WriterEffect(futs[f])
            /\ futs' = [futs EXCEPT ![f] = NoFut] /\ fwoken' = fwoken \ {f}
            /\ UNCHANGED <<kind, owners, weaks, subs, obs, armed, guards, lockWait, lwoken>>
       ELSE /\ ret' = RPending /\ fwoken' = fwoken \ {f}
            /\ UNCHANGED <<core, lockWait, lwoken, futs>>

(* dropping a guard wakes whoever waits on the lock and can now proceed *)
DropGuardA(g) ==
    /\ DropGuard(g)
    /\ LET readable == \A h \in GuardIds \ {g} : guards[h].t # "w"
           writable == \A h \in GuardIds \ {g} : guards[h].t = "none"
       IN /\ lwoken' = IF readable THEN lwoken \cup lockWait ELSE lwoken
          /\ fwoken' = IF writable THEN fwoken \cup PendingFuts ELSE fwoken
    /\ UNCHANGED <<lockWait, futs>>

Plain(A) == A /\ UNCHANGED avars

(* everything Obs can do, while nobody waits on the lock *)
QuietNext ==
    /\ Quiet
    /\ \/ Plain(\E w \in Writers, a \in Vals :
                   \/ Set(w[1], w[2], a) \/ SetIfNotEq(w[1], w[2], a) \/ Update(w[1], w[2], a))
       \/ Plain(\E o \in OwnerIds :
                   \/ OwnerGet(o) \/ DropOwner(o)
                   \/ \E n \in NewSub : Subscribe(o, n) \/ SubscribeReset(o, n)
                   \/ \E n \in NewOwner : CloneOwner(o, n)
                   \/ \E g \in NewGuard : OwnerRead(o, g) \/ OwnerTryRead(o, g) \/ OwnerWrite(o, g) \/ OwnerTryWrite(o, g))
       \/ Plain(\E g \in GuardIds : GuardGet(g))
       \/ \E g \in GuardIds : DropGuardA(g)
       \/ Plain(\E s \in SubIds :
                   \/ \E via \in PollVias : Poll(s, via)
                   \/ NextNow(s) \/ SubGet(s) \/ Reset(s) \/ DropSub(s)
                   \/ \E g \in NewGuard : SubRead(s, g))
       \/ \E s \in SubIds, via \in PollVias : PollBlocked(s, via)
       \/ \E o \in OwnerIds, f \in {Smallest(FutIds \ PendingFuts)}, k \in WriterKinds, a \in Vals : StartWriter(o, f, k, a)

(* somebody waits: only the guard holder and the waiter move *)
WaitingNext ==
    /\ ~Quiet
    /\ \/ \E g \in GuardIds : DropGuardA(g)
       \/ Plain(\E g \in GuardIds : GuardGet(g))
       \/ Plain(\E g \in WriteGuards, a \in Vals : Set("g", g, a))
       \/ \E f \in FutIds : PollFut(f)
       \/ (CanRead /\ \E s \in lockWait, via \in PollVias : PollAfterWait(s, via))

ANext == QuietNext \/ WaitingNext
ASpec == AInit /\ [][ANext]_allvars

(***************************************************************************)
(* C16 *)
LockWaitersWoken == lwoken \subseteq lockWait
(* a woken waiter can really proceed: after the wake nothing blocks it *)
WokenWriterCompletes == \A f \in fwoken : CanWrite
WokenReaderProceeds == lwoken # {} => CanRead
=============================================================================
