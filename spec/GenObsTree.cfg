SPECIFICATION Spec
CONSTANTS
  NV = 3
  OwnerIds = {1, 2}
  SubIds = {1, 2}
  WeakIds = {1}
  GuardIds = {1}
  Kinds = {"unique", "shared"}
  Depth = 3
CONSTRAINT BoundTree
INVARIANT PrintAtDepth
CHECK_DEADLOCK FALSE
